package rules

import (
	"fmt"
	"go/ast"
	"go/types"
	"regexp"
	"sort"
	"strings"

	"pigeonverif/internal/load"
)

// Optimizer rules restated on normalised paths (nform.go).

// optimizerRemovalGuard (C09-d): a rule is removed from the grammar only when it is neither used by another rule nor
// protected; the clean-up after a removal deletes exactly that rule from the user sets.
func optimizerRemovalGuard(c *Ctx, g *load.G) (ok bool, detail string, cleanupOK bool, cleanupDetail string) {
	ap := g.Pkg("ast")
	fd := load.FuncDecl(ap, "grammarOptimizer", "optimize")
	if fd == nil {
		return false, "optimize not found", false, ""
	}
	si := typeSwitchOn(fd, firstParam(fd))
	cc := si.Cases["Grammar"]
	if cc == nil {
		return false, "no *Grammar case in the optimize visitor", false, ""
	}
	recv := recvName(fd)
	paths := c.astNorm().normBlock(fd, cc.Body)
	nRemoval := 0
	var bad, badClean []string
	for _, p := range paths {
		ri := -1
		rulesField := ""
		for i, e := range p {
			if e.Kind == "set" && strings.Contains(e.Text, ".Rules=append(") && strings.Contains(e.Text, ".Rules[:#1],") {
				ri = i
				rulesField = e.Text[:strings.Index(e.Text, "=")]
			}
		}
		if ri < 0 {
			continue
		}
		nRemoval++
		name := rulesField + "[#1].Name.Val"
		before := p[:ri]
		if !(before.holds("!ok("+recv+".ruleUsedByRules["+name+"])") && before.holds("!ok("+recv+".protectedRules["+name+"])")) {
			bad = append(bad, "a rule is removed under ["+strings.Join(before.facts(), " ")+"], which does not include `not used by another rule` and `not protected`")
		}
		// clean-up: deletes after the removal. An entry is deleted from a user set exactly for the removed rule (named
		// directly, or by a loop variable known to equal it); a user set is dropped only when it is found empty after
		// such a deletion from it on the same path.
		users := recv + ".ruleUsedByRules[#2]"
		lastEntryDelete := -1
		for i := ri + 1; i < len(p); i++ {
			if p[i].Kind != "call" || !strings.HasPrefix(p[i].Text, "delete(") {
				continue
			}
			facts := p[ri:i].facts()
			switch {
			case p[i].Text == "delete("+users+","+name+")":
				lastEntryDelete = i
			case strings.HasPrefix(p[i].Text, "delete("+users+",#3)"):
				if !containsStr(facts, "#3=="+name) {
					badClean = append(badClean, "an entry of a user set is deleted under ["+strings.Join(facts, " ")+"], not exactly for the removed rule")
				} else {
					lastEntryDelete = i
				}
			case strings.HasPrefix(p[i].Text, "delete("+recv+".ruleUsedByRules,#2)"):
				emptyAfter := lastEntryDelete >= 0 && containsStr(p[lastEntryDelete:i].facts(), "len("+users+")==0")
				if !emptyAfter {
					badClean = append(badClean, "a user set is dropped under ["+strings.Join(facts, " ")+"], not exactly when it became empty by this removal")
				}
			default:
				badClean = append(badClean, "unexpected "+p[i].Text+" after a removal")
			}
		}
	}
	if nRemoval == 0 {
		bad = append(bad, "no path removes a rule")
	}
	return len(bad) == 0, strings.Join(uniq(bad), "; "), len(badClean) == 0 && nRemoval > 0, strings.Join(uniq(badClean), "; ")
}

func containsStr(list []string, s string) bool {
	for _, x := range list {
		if x == s {
			return true
		}
	}
	return false
}

// optimizerProtectedSet (C09-d): Optimize hands newGrammarOptimizer the alternate entrypoints plus the first rule, and
// newGrammarOptimizer enters every element of its argument into protectedRules.
func optimizerProtectedSet(c *Ctx, g *load.G) (alt, first, passed, entered bool) {
	ap := g.Pkg("ast")
	of := load.FuncDecl(ap, "", "Optimize")
	ngo := load.FuncDecl(ap, "", "newGrammarOptimizer")
	if of == nil || ngo == nil || of.Type.Params == nil || len(of.Type.Params.List) < 2 {
		return
	}
	gp := firstParam(of)
	altP := of.Type.Params.List[1].Names[0].Name
	nc := c.astNorm().without("newGrammarOptimizer")
	paths := nc.normPaths(of)
	alt, first, passed = len(paths) > 0, false, len(paths) > 0
	sawNonEmpty := false
	for _, p := range paths {
		ci := p.evIndex("call", 0, func(s string) bool { return strings.HasPrefix(s, "newGrammarOptimizer(") })
		if ci < 0 {
			passed = false
			continue
		}
		arg := strings.TrimSuffix(strings.TrimPrefix(p[ci].Text, "newGrammarOptimizer("), ")")
		// the history of the argument on this path
		hasAlt, hasFirst := arg == altP, false
		for _, e := range p[:ci] {
			if e.Kind != "set" || !strings.HasPrefix(e.Text, arg+"=") {
				continue
			}
			v := strings.TrimPrefix(e.Text, arg+"=")
			if v == altP {
				hasAlt = true
			}
			if v == "append("+arg+","+gp+".Rules[0].Name.Val)" || v == "append("+altP+","+gp+".Rules[0].Name.Val)" {
				hasFirst = true
			}
		}
		if !hasAlt {
			alt = false
		}
		if p.holds("len(" + gp + ".Rules)>0") {
			sawNonEmpty = true
			if !hasFirst {
				first = false
				sawNonEmpty = false
				break
			}
			first = true
		}
	}
	first = first && sawNonEmpty
	// newGrammarOptimizer
	prm := firstParam(ngo)
	entered = true
	ps := c.astNorm().normPaths(ngo)
	if len(ps) == 0 {
		entered = false
	}
	for _, p := range ps {
		lo, hi := loopSpan(p, "range "+prm)
		set := ""
		for i := lo + 1; lo >= 0 && i < hi && i < len(p); i++ {
			if p[i].Kind == "set" && strings.HasSuffix(p[i].Text, "["+prm+"[#1]]=struct{}{}") {
				set = p[i].Text[:strings.Index(p[i].Text, "[")]
			}
			if p[i].Kind == "+" || p[i].Kind == "branch" {
				set = ""
				break
			}
		}
		if set == "" {
			entered = false
			continue
		}
		found := false
		for _, e := range p {
			if strings.Contains(e.Text, "protectedRules:"+set) || e.Kind == "set" && strings.HasSuffix(e.Text, ".protectedRules="+set) {
				found = true
			}
		}
		if !found {
			entered = false
		}
	}
	return
}

// optimizerInlineGuard (C09-f(4) / C13-h): a reference is replaced by a clone only when the referenced rule is
// defined and has no entry in ruleUsesRules, and what is cloned is that rule's expression.
func optimizerInlineGuard(c *Ctx, g *load.G) (bool, string) {
	ap := g.Pkg("ast")
	fd := load.FuncDecl(ap, "grammarOptimizer", "optimizeRule")
	if fd == nil {
		return false, "optimizeRule not found"
	}
	recv, x := recvName(fd), firstParam(fd)
	paths := c.astNorm().normPaths(fd)
	n := 0
	var bad []string
	for _, p := range paths {
		ci := p.evIndex("call", 0, func(s string) bool { return strings.HasPrefix(s, "cloneExpr(") })
		if ci < 0 {
			continue
		}
		n++
		name := "(" + x + ".(*RuleRefExpr)).Name.Val"
		before := p[:ci]
		var facts []string
		for _, f := range before.facts() {
			facts = append(facts, stripAsserts(strings.ReplaceAll(f, name, "NAME")))
		}
		// the expression is a reference: by a checked assertion or by the clause of a type switch
		isRef := before.holds("ok(" + x + ".(*RuleRefExpr))")
		for _, e := range before {
			if e.Kind == "tcase" && strings.HasSuffix(e.Text, ":*RuleRefExpr") {
				isRef = true
			}
		}
		if !isRef {
			bad = append(bad, "a reference is inlined without `ok("+x+".(*RuleRefExpr))` (facts: "+abbreviate(strings.Join(before.facts(), " "))+")")
		}
		// the two lookups, whichever way the reference is named (asserted expression or type-switch variable)
		stripped := map[string]bool{}
		for _, f := range before.facts() {
			stripped[minParens(stripAsserts(f))] = true
		}
		for _, nd := range []string{"ok(" + recv + ".rules[" + name + "])", "!ok(" + recv + ".ruleUsesRules[" + name + "])"} {
			// a looked-up rule that is not nil is a defined rule (the table never holds nil: C13-a on its writers)
			alt := ""
			if strings.HasPrefix(nd, "ok(") {
				alt = strings.TrimSuffix(strings.TrimPrefix(nd, "ok("), ")") + "!=nil"
			}
			if !before.holds(minParens(nd)) && !stripped[minParens(stripAsserts(nd))] && !(alt != "" && (before.holds(minParens(alt)) || stripped[minParens(stripAsserts(alt))])) {
				bad = append(bad, "a reference is inlined without `"+nd+"` (facts: "+abbreviate(strings.Join(before.facts(), " "))+")")
			}
		}
		if arg := stripAsserts(p[ci].Text); arg != stripAsserts("cloneExpr("+recv+".rules["+name+"].Expr)") {
			bad = append(bad, "what is cloned is "+p[ci].Text+", expected the expression of the referenced rule")
		}
		_ = facts
	}
	if n == 0 {
		bad = append(bad, "cloneExpr call not found")
	}
	return len(bad) == 0, strings.Join(uniq(bad), "; ")
}

// optimizerRecordsReferences (C09-f(5) / C13-h): on every path of the visitor that sees a rule reference, both
// directions are recorded: ruleUsesRules[current rule][referenced] and ruleUsedByRules[referenced][current rule].
func optimizerRecordsReferences(c *Ctx, g *load.G) (bool, string) {
	ap := g.Pkg("ast")
	fd := load.FuncDecl(ap, "grammarOptimizer", "init")
	if fd == nil {
		return false, "init visitor not found"
	}
	recv, x := recvName(fd), firstParam(fd)
	paths := c.astNorm().normPaths(fd)
	// the field that names the rule being visited: the one the Rule case stores the rule's name into
	cur := "rule"
	for _, p := range paths {
		isRule := false
		for _, e := range p {
			if e.Kind == "tcase" && strings.HasSuffix(e.Text, ":*Rule") {
				isRule = true
			}
			if isRule && e.Kind == "set" && strings.HasPrefix(e.Text, recv+".") && strings.HasSuffix(e.Text, "="+x+".Name.Val") {
				cur = strings.TrimSuffix(strings.TrimPrefix(e.Text, recv+"."), "="+x+".Name.Val")
			}
		}
	}
	n := 0
	var bad []string
	for _, p0 := range paths {
		p := resolveAliases(p0)
		isRef := false
		for _, e := range p {
			if e.Kind == "tcase" && strings.HasSuffix(e.Text, ":*RuleRefExpr") {
				isRef = true
			}
			if e.Kind == "+" && e.Text == "ok("+x+".(*RuleRefExpr))" {
				isRef = true
			}
		}
		if !isRef {
			continue
		}
		n++
		want := map[string]bool{
			recv + ".ruleUsesRules[" + recv + "." + cur + "][" + x + ".Name.Val]=struct{}{}":   false,
			recv + ".ruleUsedByRules[" + x + ".Name.Val][" + recv + "." + cur + "]=struct{}{}": false,
		}
		for _, e := range p {
			if e.Kind == "set" {
				t := stripAsserts(e.Text)
				if _, ok := want[t]; ok {
					want[t] = true
				}
			}
		}
		for w, ok := range want {
			if !ok {
				bad = append(bad, "a path of the reference case does not record "+w+" (facts: "+abbreviate(strings.Join(p.facts(), " "))+")")
			}
		}
		// no condition other than the presence tests of the inner sets may decide whether a reference is recorded
		for _, f := range p.facts() {
			t := stripAsserts(f)
			okf := t == "ok("+x+")" || strings.HasPrefix(t, "ok("+recv+".ruleUse") || strings.HasPrefix(t, "!ok("+recv+".ruleUse") ||
				strings.HasSuffix(t, "==nil") || strings.HasSuffix(t, "!=nil") || strings.HasPrefix(t, "!ok("+x+".(") || strings.HasPrefix(f, "ok("+x+".(") || strings.HasPrefix(f, "!ok("+x+".(")
			if !okf {
				bad = append(bad, "a reference is recorded only under `"+f+"`")
			}
		}
	}
	if n == 0 {
		bad = append(bad, "no path of the visitor handles a rule reference")
	}
	return len(bad) == 0, strings.Join(uniq(bad), "; ")
}

// optimizerAbsorbedRemoved (C09-f(3)): in the loop over the alternatives of a choice, element i is removed exactly on
// the paths on which a merge was applied (the merge flag was set).
func optimizerAbsorbedRemoved(c *Ctx, g *load.G) (bool, string) {
	ap := g.Pkg("ast")
	fd := load.FuncDecl(ap, "grammarOptimizer", "optimize")
	if fd == nil {
		return false, "optimize not found"
	}
	si := typeSwitchOn(fd, firstParam(fd))
	cc := si.Cases["ChoiceExpr"]
	if cc == nil {
		return false, "no *ChoiceExpr case"
	}
	paths := c.astNorm().normBlock(fd, cc.Body)
	if len(paths) == 0 {
		return false, "no paths (too many?)"
	}
	nMerged := 0
	var bad []string
	for _, p := range paths {
		// inside the loop over the alternatives: merges store a class at index #1-1 or extend a class; the flag is a
		// numbered local set to true there
		flagSet := false
		for _, e := range p {
			if e.Kind == "set" && dollarRe.MatchString(e.Text) && strings.HasSuffix(e.Text, "=true") && dollarRe.FindString(e.Text)+"=true" == e.Text {
				flagSet = true
			}
		}
		removed := false
		for _, e := range p {
			if e.Kind == "set" && strings.Contains(e.Text, ".Alternatives=") {
				v := e.Text[strings.Index(e.Text, "=")+1:]
				if strings.Contains(v, ".Alternatives[:#1]") && !strings.Contains(v, "choice") && (strings.Contains(v, ".Alternatives[#1+1:]...)") || strings.HasSuffix(v, ".Alternatives[:#1]")) && !strings.Contains(v, ".Alternatives...") {
					// distinguish the removal of element #1 from the splice of a nested choice (which appends the nested alternatives)
					if !strings.Contains(v, ".(*ChoiceExpr)") {
						removed = true
					}
				}
			}
		}
		// a merge is applied where a class is built or extended (whatever flag records it)
		for _, e := range p {
			if e.Kind == "set" && (strings.Contains(e.Text, ".Chars=append(") || strings.Contains(e.Text, "=CharClassMatcher{") || strings.Contains(e.Text, "=&CharClassMatcher{")) {
				flagSet = true
			}
		}
		if flagSet {
			nMerged++
		}
		if flagSet != removed {
			bad = append(bad, fmt.Sprintf("on a path merge-applied=%t but element i removed=%t", flagSet, removed))
		}
	}
	if nMerged == 0 {
		bad = append(bad, "no path applies a merge")
	}
	return len(bad) == 0, strings.Join(uniq(bad), "; ")
}

// substObjects replaces, along a path, a numbered local that was defined by a type assertion of a container element
// (a pointer to that node) by the asserted expression, so that operands read the same whether or not the code names them.
func substObjects(p bpath) bpath {
	return substAliases(p, func(v string) bool {
		return assertRe.MatchString(v) && strings.HasSuffix(v, ")") && !strings.HasPrefix(v, "ok(")
	})
}

// substAliases replaces a numbered local by the expression it was set to, where isRef says that the expression
// denotes a reference (pointer-valued element, asserted pointer): stores through the local are stores through the
// expression.
func substAliases(p bpath, isRef func(v string) bool) bpath {
	env := map[string]string{}
	out := make(bpath, 0, len(p))
	for _, e := range p {
		ne := e
		if e.Kind == "set" {
			if i := strings.Index(e.Text, "="); i > 0 && dollarRe.FindString(e.Text[:i]) == e.Text[:i] {
				name, v := e.Text[:i], e.Text[i+1:]
				if len(env) > 0 && strings.Contains(v, "$") {
					v = dollarRe.ReplaceAllStringFunc(v, func(m string) string {
						if w, ok := env[m]; ok {
							return w
						}
						return m
					})
					ne.Text = name + "=" + v
				}
				if isRef(v) {
					env[name] = v
				} else {
					delete(env, name)
				}
				out = append(out, ne)
				continue
			}
		}
		if len(env) > 0 && strings.Contains(e.Text, "$") {
			ne.Text = dollarRe.ReplaceAllStringFunc(e.Text, func(m string) string {
				if v, ok := env[m]; ok {
					return v
				}
				return m
			})
			if e.Kind == "+" {
				ne.Text = canonText(ne.Text, false)
			}
		}
		out = append(out, ne)
	}
	return out
}

// optimizerMergeCases (C09-b guards, C09-f effects): the four rewrites that merge two adjacent alternatives into one
// character class, decided on the normalised paths of the choice case. P is the element at index i-1, Q the one at i.
func optimizerMergeCases(c *Ctx, g *load.G) {
	r := c.R
	ap := g.Pkg("ast")
	fd := load.FuncDecl(ap, "grammarOptimizer", "optimize")
	if fd == nil {
		return
	}
	si := typeSwitchOn(fd, firstParam(fd))
	cc := si.Cases["ChoiceExpr"]
	if cc == nil {
		r.Unk("C09-b", "G.ast.optimize:merge-cases", "", g.Where(fd.Pos()), "no *ChoiceExpr case")
		return
	}
	x := firstParam(fd)
	A := x + ".Alternatives"
	P, Q := A+"[#1-1]", A+"[#1]"
	lit := func(e string) string { return e + ".(*LitMatcher)" }
	cls := func(e string) string { return e + ".(*CharClassMatcher)" }
	type mcase struct {
		name    string
		kinds   []string // facts selecting the case
		guards  []string
		effects []string // stores that must happen (prefix match on the event text)
	}
	l0, l1, c0, c1 := lit(P), lit(Q), cls(P), cls(Q)
	cases := []mcase{
		{"lit,lit", []string{"ok(" + l0 + ")", "ok(" + l1 + ")"},
			[]string{"utf8.RuneCountInString(" + l0 + ".Val)==1", "utf8.RuneCountInString(" + l1 + ".Val)==1", l0 + ".IgnoreCase==" + l1 + ".IgnoreCase"},
			[]string{P + "=&CharClassMatcher{Chars:append([]rune(" + l0 + ".Val),[]rune(" + l1 + ".Val)...),IgnoreCase:" + l0 + ".IgnoreCase,posValue:" + l0 + ".posValue}"}},
		{"lit,class", []string{"ok(" + l0 + ")", "ok(" + c1 + ")"},
			[]string{"utf8.RuneCountInString(" + l0 + ".Val)==1", l0 + ".IgnoreCase==" + c1 + ".IgnoreCase", "!" + c1 + ".Inverted"},
			[]string{c1 + ".Chars=append(" + c1 + ".Chars,[]rune(" + l0 + ".Val)...)", P + "=" + c1}},
		{"class,lit", []string{"ok(" + c0 + ")", "ok(" + l1 + ")"},
			[]string{"utf8.RuneCountInString(" + l1 + ".Val)==1", c0 + ".IgnoreCase==" + l1 + ".IgnoreCase", "!" + c0 + ".Inverted"},
			[]string{c0 + ".Chars=append(" + c0 + ".Chars,[]rune(" + l1 + ".Val)...)"}},
		{"class,class", []string{"ok(" + c0 + ")", "ok(" + c1 + ")"},
			[]string{c0 + ".IgnoreCase==" + c1 + ".IgnoreCase", "!" + c0 + ".Inverted", "!" + c1 + ".Inverted"},
			[]string{c0 + ".Chars=append(" + c0 + ".Chars," + c1 + ".Chars...)", c0 + ".Ranges=append(" + c0 + ".Ranges," + c1 + ".Ranges...)", c0 + ".UnicodeClasses=append(" + c0 + ".UnicodeClasses," + c1 + ".UnicodeClasses...)"}},
	}
	paths := c.astNorm().normBlock(fd, cc.Body)
	seen := map[string]int{}
	bad := map[string][]string{}
	for _, p0 := range paths {
		p := substObjects(p0)
		// a merge is applied on this path iff a class is built or extended
		merged := false
		for _, e := range p {
			if e.Kind == "set" && (strings.Contains(e.Text, ".Chars=append(") || strings.Contains(e.Text, "=CharClassMatcher{") || strings.Contains(e.Text, "=&CharClassMatcher{")) {
				merged = true
			}
		}
		if !merged {
			continue
		}
		matched := ""
		for _, mc := range cases {
			all := true
			for _, k := range mc.kinds {
				if !p.holds(k) {
					all = false
				}
			}
			if !all {
				continue
			}
			// the effect of this very case? (stored values read through the locals that carry them)
			eff := true
			for _, ef := range mc.effects {
				found := false
				for i, e := range p {
					if e.Kind != "set" {
						continue
					}
					txt := e.Text
					if k := indexTop(txt, "="); k > 0 {
						txt = txt[:k+1] + resolveChain(p, i, txt[k+1:])
					}
					txt = canonSingleRune(txt)
					if strings.Contains(txt, ef) {
						found = true
					}
				}
				if !found {
					eff = false
				}
			}
			if eff {
				matched = mc.name
				seen[mc.name]++
				for _, gd := range mc.guards {
					sym := gd
					if i := strings.Index(gd, "=="); i > 0 && strings.Contains(gd, ".IgnoreCase==") {
						sym = gd[i+2:] + "==" + gd[:i]
					}
					if !p.holds(gd) && !p.holds(sym) {
						bad[mc.name] = append(bad[mc.name], "merged without `"+stripAsserts(gd)+"`")
					}
				}
				break
			}
		}
		if matched == "" {
			bad["other"] = append(bad["other"], "a class is built or extended on a path that is none of the four merge cases with its complete effect (facts: "+abbreviate(stripAsserts(strings.Join(p.facts(), " ")))+")")
		}
	}
	for _, mc := range cases {
		construct := "G.ast.optimize:merge(" + mc.name + ")"
		r.Check(seen[mc.name] > 0, "C09-f", construct+":effect", "", g.Where(cc.Pos()), fmt.Sprintf("%d paths move the members completely and leave the survivor at index i-1", seen[mc.name]), "no path performs this merge with its complete effect (all member lists moved, survivor stored at index i-1): members are lost when the second alternative is removed")
		if seen[mc.name] == 0 {
			continue
		}
		r.Check(len(bad[mc.name]) == 0, "C09-b", construct, "", g.Where(cc.Pos()), "single rune literals only, equal IgnoreCase, no inverted class", strings.Join(uniq(bad[mc.name]), "; ")+": [^a] / [^b] matches everything, [^ab] does not; \"ab\" / \"c\" is not [abc]")
	}
	r.Check(len(bad["other"]) == 0, "C09-b", "G.ast.optimize:merge-cases-closed", "", g.Where(cc.Pos()), "classes are built or extended only by the four guarded merges", strings.Join(uniq(bad["other"]), "; "))
	// literal concatenation in sequences
	if sc := si.Cases["SeqExpr"]; sc != nil {
		E := x + ".Exprs"
		s0, s1 := lit(E+"[#1-1]"), lit(E+"[#1]")
		var badS []string
		n := 0
		for _, p0 := range c.astNorm().normBlock(fd, sc.Body) {
			p := substObjects(p0)
			for _, e := range p {
				if e.Kind == "set" && strings.HasPrefix(e.Text, s0+".Val+=") {
					n++
					if e.Text != s0+".Val+="+s1+".Val" {
						badS = append(badS, "the literal receives "+stripAsserts(e.Text))
					}
					if !(p.holds("ok("+s0+")") && p.holds("ok("+s1+")") && (p.holds(s0+".IgnoreCase=="+s1+".IgnoreCase") || p.holds(s1+".IgnoreCase=="+s0+".IgnoreCase"))) {
						badS = append(badS, "literals are concatenated without both being literals of equal IgnoreCase")
					}
				}
			}
		}
		r.Check(len(badS) == 0 && n > 0, "C09-b", "G.ast.optimize:literal-concatenation-guard", "", g.Where(sc.Pos()), "adjacent literals are concatenated only when both are literals with equal IgnoreCase", strings.Join(uniq(badS), "; "))
	}
}

var chainRe = regexp.MustCompile(`^(&?)(\$[0-9]+)$`)

// resolveChain reads a stored value through the numbered locals that carry it: `$4` with `$4=&$21` and
// `$21=T{…}` set earlier on the path is `&T{…}`.
func resolveChain(p bpath, upto int, v string) string {
	for depth := 0; depth < 4; depth++ {
		m := chainRe.FindStringSubmatch(v)
		if m == nil {
			return v
		}
		val := ""
		for i := upto - 1; i >= 0; i-- {
			if p[i].Kind == "set" && strings.HasPrefix(p[i].Text, m[2]+"=") {
				val = strings.TrimPrefix(p[i].Text, m[2]+"=")
				upto = i
				break
			}
		}
		if val == "" {
			return v
		}
		if m[1] == "&" && strings.HasPrefix(val, "&") {
			return v
		}
		v = m[1] + val
	}
	return v
}

var strideRe = regexp.MustCompile(`^for ;(\$[0-9]+)<len\((.+)\.Ranges\);(\$[0-9]+)\+=2$`)

// cleanupKeepsMembers (C09-f): duplicate removal in a merged class, read off the normalised paths of the function that
// rebuilds the lists (cleanupCharClassMatcher or the helper it delegates to): each list is replaced by a local list
// that received, in a loop over the old list, every member not seen before - the member itself for Chars and
// UnicodeClasses, the pair (Ranges[i], Ranges[i+1]) for Ranges, remembered under a key made of both ends - or by nil
// when nothing was kept. Wherever a stride-2 loop reads the pairs, the low end comes before the high end.
func cleanupKeepsMembers(c *Ctx, g *load.G, cf *ast.FuncDecl) string {
	ap := g.Pkg("ast")
	var bad []string
	nRebuild := 0
	pairLoops := 0
	installed := map[string]int{}
	for _, fd := range withHelpers(ap, cf, "Walk", "cloneExpr") {
		paths := c.astNorm().normPaths(fd)
		rebuilds := false
		for _, p := range paths {
			for _, e := range p {
				if e.Kind == "set" && regexp.MustCompile(`^[^=]+\.Chars=`).MatchString(e.Text) {
					rebuilds = true
				}
			}
		}
		// pair order in every stride-2 loop of the function
		for _, p := range paths {
			for i, e := range p {
				if e.Kind != "loop" {
					continue
				}
				m := strideRe.FindStringSubmatch(e.Text)
				if m == nil || m[1] != m[3] {
					continue
				}
				pairLoops++
				_, hi := loopSpan(p[i:], e.Text)
				// the ends read inside the loop, in order: every use of a pair reads the low end, then the high end
				lo, hiEnd := m[2]+".Ranges["+m[1]+"]", m[2]+".Ranges["+m[1]+"+1]"
				seq := ""
				for _, e2 := range p[i+1 : i+hi] {
					if e2.Kind != "call" && e2.Kind != "set" {
						continue
					}
					// a call event repeats the text of the calls nested in it: read the outermost writes and stores only
					if e2.Kind == "call" && !strings.Contains(e2.Text, "WriteString(") && !strings.Contains(e2.Text, "WriteRune(") && !strings.Contains(e2.Text, "Fprint") {
						continue
					}
					txt := e2.Text
					for k := 0; k < len(txt); {
						switch {
						case strings.HasPrefix(txt[k:], hiEnd):
							seq += "H"
							k += len(hiEnd)
						case strings.HasPrefix(txt[k:], lo):
							seq += "L"
							k += len(lo)
						default:
							k++
						}
					}
				}
				if seq == "" || strings.ReplaceAll(seq, "LH", "") != "" {
					bad = append(bad, "a loop over the range pairs reads the ends in the order "+seq+", expected the low end and then the high end each time a pair is used")
				}
			}
		}
		if !rebuilds {
			continue
		}
		for _, p := range paths {
			var X string
			for _, e := range p {
				if e.Kind == "set" {
					if k := strings.Index(e.Text, ".Chars="); k > 0 && !strings.Contains(e.Text[:k], "=") {
						X = e.Text[:k]
					}
				}
			}
			if X == "" {
				continue // the node is not a class: nothing to do on this path
			}
			nRebuild++
			viaHelper := map[string]bool{}
			for _, field := range []string{"Chars", "Ranges", "UnicodeClasses"} {
				v, iv := lastSet(p, X+"."+field)
				if iv < 0 {
					bad = append(bad, "the list "+field+" is not rebuilt on a path")
					continue
				}
				if v == "nil" {
					continue // the other arm installs the rebuilt list; an empty result is stored as nil
				}
				if m := helperCallRe.FindStringSubmatch(v); m != nil && m[2] == X+"."+field && field != "Ranges" {
					// the duplicate removal of this list lives in a helper: the same obligations on its parameter
					if hd := load.FuncDecl(ap, "", m[1]); hd != nil && hd.Type.Params.NumFields() == 1 && len(hd.Type.Params.List[0].Names) == 1 {
						if why := dedupHelperKeepsMembers(c.astNorm().normPaths(hd), hd.Type.Params.List[0].Names[0].Name); why == "" {
							installed[field]++
							viaHelper[field] = true
						} else {
							bad = append(bad, field+" is rebuilt by "+m[1]+": "+why)
						}
						continue
					}
				}
				if dollarRe.FindString(v) != v {
					bad = append(bad, field+" is replaced by "+abbreviate(v)+", not by the list of kept members")
					continue
				}
				// every append to the kept list
				nApp := 0
				for i, e := range p[:iv] {
					if e.Kind != "set" || !strings.HasPrefix(e.Text, v+"=append("+v+",") {
						continue
					}
					nApp++
					args := splitTop(strings.TrimSuffix(strings.TrimPrefix(e.Text, v+"=append("), ")"), ",")[1:]
					// the enclosing loop and the member it stands at
					loop := ""
					depth := 0
					for k := i; k >= 0 && loop == ""; k-- {
						switch p[k].Kind {
						case "endloop":
							depth++
						case "loop":
							if depth == 0 {
								loop = p[k].Text
							} else {
								depth--
							}
						}
					}
					var member []string
					switch {
					case loop == "range "+X+"."+field && field != "Ranges":
						member = []string{X + "." + field + "[#1]"}
					case strideRe.MatchString(loop) && field == "Ranges":
						m := strideRe.FindStringSubmatch(loop)
						if m[2] == X {
							member = []string{X + ".Ranges[" + m[1] + "]", X + ".Ranges[" + m[1] + "+1]"}
						}
					}
					if member == nil || strings.Join(args, ",") != strings.Join(member, ",") {
						bad = append(bad, "the kept list of "+field+" receives "+abbreviate(strings.Join(args, ","))+" in `"+loop+"`, expected the member the loop stands at")
						continue
					}
					// remembered and tested under a key made of the whole member
					keyOK := false
					for _, f := range p[:i].facts() {
						if strings.HasPrefix(f, "!ok($") && strings.HasSuffix(f, "])") {
							key := f[strings.Index(f, "[")+1 : len(f)-2]
							all := true
							pos := -1
							for _, mem := range member {
								q := strings.Index(key, mem)
								if q < 0 || q < pos {
									all = false
								}
								pos = q
							}
							if all {
								keyOK = true
							}
						}
					}
					if !keyOK {
						bad = append(bad, "a member of "+field+" is kept without the not-seen-before test on the member itself")
					}
				}
				if nApp > 0 {
					installed[field]++
				}
			}
			// a member that was seen before is not kept, one that was not seen is
			for _, field := range []string{"Chars", "UnicodeClasses"} {
				if viaHelper[field] {
					continue
				}
				if v, _ := lastSet(p, X+"."+field); v == "nil" && p.holds("len("+X+"."+field+")==0") {
					continue // an empty list stays empty: there is no member to keep or to drop on this path
				}
				lo, hi := loopSpan(p, "range "+X+"."+field)
				if lo < 0 {
					bad = append(bad, "no loop over "+field)
					continue
				}
				seen, kept := false, false
				for _, e := range p[lo:hi] {
					if e.Kind == "+" && strings.HasPrefix(e.Text, "ok($") {
						seen = true
					}
					if e.Kind == "set" && strings.Contains(e.Text, "=append(") {
						kept = true
					}
				}
				if seen == kept && hi > lo+1 {
					bad = append(bad, "in the loop over "+field+" a member is kept although it was seen, or dropped although it was not")
				}
			}
		}
	}
	if nRebuild == 0 {
		bad = append(bad, "no function rebuilds the member lists")
	}
	for _, field := range []string{"Chars", "Ranges", "UnicodeClasses"} {
		if nRebuild > 0 && installed[field] == 0 {
			bad = append(bad, "no path installs a list of kept members for "+field+": every member of that list is dropped")
		}
	}
	if pairLoops < 2 {
		bad = append(bad, "the stride-2 loops over the range pairs (duplicate removal, text) were not found")
	}
	return strings.Join(uniq(bad), "; ")
}

var runeLitPairRe = regexp.MustCompile(`\[\]rune\{RUNEOF<([^<>]+)>,RUNEOF<([^<>]+)>\}`)
var appendOneRe = regexp.MustCompile(`,RUNEOF<([^<>]+)>\)`)

// canonSingleRune: where a string is known to hold exactly one rune (the guard every literal merge requires), its
// first decoded rune is all of its runes: `append(cs, r)` with r decoded from s reads `append(cs, []rune(s)...)`, and
// `[]rune{r0, r1}` reads `append([]rune(s0), []rune(s1)...)`.
func canonSingleRune(t string) string {
	const pre = "res0(utf8.DecodeRuneInString("
	if !strings.Contains(t, pre) {
		return t
	}
	for {
		i := strings.Index(t, pre)
		if i < 0 {
			break
		}
		// the argument, up to the parenthesis that closes DecodeRuneInString(
		depth, j := 1, i+len(pre)
		for ; j < len(t) && depth > 0; j++ {
			switch t[j] {
			case '(':
				depth++
			case ')':
				depth--
			}
		}
		if depth != 0 || j >= len(t) || t[j] != ')' {
			break
		}
		arg := t[i+len(pre) : j-1]
		t = t[:i] + "RUNEOF<" + arg + ">" + t[j+1:]
	}
	t = runeLitPairRe.ReplaceAllString(t, "append([]rune($1),[]rune($2)...)")
	t = appendOneRe.ReplaceAllString(t, ",[]rune($1)...)")
	return t
}

// optimizerSlotCoverage (C09-g): the inlining pass offers every operand slot to optimizeRule. The bookkeeping that
// decides whether a rule is still used is kept per (using rule, used rule) and is cleared the first time one
// reference of that pair is inlined; a rule is removed when no pair is left. That is sound only if every reference of
// a rule body is inlined in the same pass, i.e. only if the visitor hands every Expression child of every kind (and of
// Rule) to optimizeRule: a slot that is skipped keeps its reference while the referenced rule is removed, and the
// optimized parser fails with "undefined rule" where the plain one matches.
func optimizerSlotCoverage(c *Ctx, g *load.G, rule string) {
	r := c.R
	ap := g.Pkg("ast")
	fd := load.FuncDecl(ap, "grammarOptimizer", "optimize")
	if fd == nil {
		r.Fatal("anchor grammarOptimizer.optimize not found")
		return
	}
	recv, x := recvName(fd), firstParam(fd)
	kinds, _ := c.exprKinds()
	type slot struct {
		field string
		list  bool
	}
	slots := map[string][]slot{}
	for _, k := range kinds {
		st, _ := k.Named.Underlying().(*types.Struct)
		for _, ch := range k.Children {
			isList := false
			if st != nil {
				for i := 0; i < st.NumFields(); i++ {
					if st.Field(i).Name() == ch {
						_, isList = st.Field(i).Type().(*types.Slice)
					}
				}
			}
			slots[k.Name] = append(slots[k.Name], slot{ch, isList})
		}
	}
	slots["Rule"] = []slot{{"Expr", false}}
	paths := c.astNorm().without("optimizeRule", "optimizeRules", "cleanupCharClassMatcher").normPaths(fd)
	if len(paths) == 0 {
		r.Unk(rule, "G.ast.optimize:every-operand-slot-offered-to-inlining", "", g.Where(fd.Pos()), "the visitor could not be enumerated")
		return
	}
	// optimizeRules, where it exists, replaces every element
	listHelperOK := true
	if lf := load.FuncDecl(ap, "grammarOptimizer", "optimizeRules"); lf != nil {
		lp := firstParam(lf)
		lr := recvName(lf)
		listHelperOK = false
		for _, p := range c.astNorm().without("optimizeRule").normPaths(lf) {
			for _, e := range p {
				if e.Kind == "set" && (e.Text == lp+"[#1]="+lr+".optimizeRule("+lp+"[#1])" || strings.HasPrefix(e.Text, lp+"[$") && strings.Contains(e.Text, "]="+lr+".optimizeRule("+lp+"[$")) {
					listHelperOK = true
				}
			}
		}
	}
	var names []string
	for k := range slots {
		names = append(names, k)
	}
	sort.Strings(names)
	var bad []string
	nSlots := 0
	for _, k := range names {
		var kp []bpath
		for _, p := range paths {
			for _, e := range p {
				if e.Kind == "tcase" && strings.HasSuffix(e.Text, ":*"+k) {
					kp = append(kp, p)
					break
				}
			}
		}
		if len(kp) == 0 {
			var fs []string
			for _, s := range slots[k] {
				fs = append(fs, s.field)
			}
			bad = append(bad, fmt.Sprintf("%s has operand slot(s) %s but the inlining pass has no case for it: a reference standing directly in such a slot is never inlined, while the rule it names is removed as soon as another reference of the same rule body was", k, strings.Join(fs, ", ")))
			continue
		}
		for _, s := range slots[k] {
			nSlots++
			target := x + "." + s.field
			for _, p := range kp {
				ok := false
				for _, e := range p {
					// the list helper replaces the elements in place: calling it on the slot is enough
					if s.list && listHelperOK && (e.Kind == "call" || e.Kind == "ccall") && stripAsserts(e.Text) == recv+".optimizeRules("+target+")" {
						ok = true
					}
					if e.Kind != "set" {
						continue
					}
					t := strings.TrimPrefix(stripAsserts(e.Text), "*&")
					switch {
					case !s.list && t == target+"="+recv+".optimizeRule("+target+")":
						ok = true
					case s.list && t == target+"="+recv+".optimizeRules("+target+")" && listHelperOK:
						ok = true
					case s.list && strings.HasPrefix(t, target+"[") && strings.Contains(t, "]="+recv+".optimizeRule("+target+"["):
						ok = true
					}
				}
				if !ok {
					bad = append(bad, fmt.Sprintf("a path of the %s case does not pass %s through optimizeRule [%s]", k, target, abbreviate(strings.Join(p.facts(), " "))))
				}
			}
		}
	}
	r.Check(len(bad) == 0, rule, "G.ast.optimize:every-operand-slot-offered-to-inlining", "", g.Where(fd.Pos()), fmt.Sprintf("%d operand slots of %d kinds, each stored from optimizeRule on every path of its case", nSlots, len(names)), strings.Join(uniq(bad), "; "))
}

// cloneKeepsFields (C09-h): a clone is the node it was made from. Every `&T{…}` built in cloneExpr (and its helpers)
// for an expression kind T lists every field of T - taken from the same field of the source - except the fields that
// only the analysis passes store (the Nullable flags, recomputed after optimization). A field that is left out
// silently becomes its zero value in every inlined copy: a throw without its label, a literal without its
// ignore-case flag.
func cloneKeepsFields(c *Ctx, g *load.G, rule string) {
	r := c.R
	ap := g.Pkg("ast")
	ce := load.FuncDecl(ap, "", "cloneExpr")
	if ce == nil {
		r.Fatal("anchor ast.cloneExpr not found")
		return
	}
	kinds, _ := c.exprKinds()
	isKind := map[string]*types.Struct{}
	for _, k := range kinds {
		if st, ok := k.Named.Underlying().(*types.Struct); ok {
			isKind[k.Name] = st
		}
	}
	// fields the analysis passes derive: stored by a NullableVisit / InitialNames / IsNullable method
	derived := map[string]bool{}
	for _, fd := range load.AllFuncDecls(ap) {
		if fd.Body == nil || fd.Recv == nil {
			continue
		}
		switch fd.Name.Name {
		case "NullableVisit", "IsNullable", "InitialNames":
		default:
			continue
		}
		rt := strings.TrimPrefix(nospace(fd.Recv.List[0].Type), "*")
		ast.Inspect(fd.Body, func(n ast.Node) bool {
			if as, ok := n.(*ast.AssignStmt); ok {
				for _, l := range as.Lhs {
					if sel, ok := l.(*ast.SelectorExpr); ok {
						if id, ok := sel.X.(*ast.Ident); ok && len(fd.Recv.List[0].Names) == 1 && id.Name == fd.Recv.List[0].Names[0].Name {
							derived[rt+"."+sel.Sel.Name] = true
						}
					}
				}
			}
			return true
		})
	}
	var bad []string
	n := 0
	for _, fd := range withHelpers(ap, ce) {
		ast.Inspect(fd.Body, func(nd ast.Node) bool {
			cl, ok := nd.(*ast.CompositeLit)
			if !ok {
				return true
			}
			tn := namedOf(ap.TypesInfo.TypeOf(cl))
			st := isKind[tn]
			if st == nil {
				return true
			}
			n++
			keys := map[string]string{}
			positional := false
			for _, el := range cl.Elts {
				if kv, ok := el.(*ast.KeyValueExpr); ok {
					keys[nospace(kv.Key)] = nospace(kv.Value)
				} else {
					positional = true
				}
			}
			if positional {
				return true // every field is given, in order (the compiler checks the count)
			}
			for i := 0; i < st.NumFields(); i++ {
				f := st.Field(i).Name()
				v, listed := keys[f]
				switch {
				case !listed && derived[tn+"."+f]:
				case !listed:
					bad = append(bad, fmt.Sprintf("%s: the clone of a %s leaves out field %s: every inlined copy has its zero value", g.Where(cl.Pos()), tn, f))
				case !strings.Contains(v, "."+f) && !isIdentText(v):
					bad = append(bad, fmt.Sprintf("%s: field %s of the cloned %s is %s, not taken from the same field of the source", g.Where(cl.Pos()), f, tn, abbreviate(v)))
				}
			}
			return true
		})
	}
	sort.Strings(bad)
	r.Check(len(bad) == 0 && n >= 8, rule, "G.ast.cloneExpr:clone-keeps-every-field", "", g.Where(ce.Pos()), fmt.Sprintf("%d clone literals list every field of their kind (analysis flags aside), each from the same field of the source", n), strings.Join(bad, "; "))
}

func isIdentText(s string) bool {
	if s == "" {
		return false
	}
	for i, ch := range s {
		if !(ch == '_' || ch >= 'a' && ch <= 'z' || ch >= 'A' && ch <= 'Z' || i > 0 && ch >= '0' && ch <= '9') {
			return false
		}
	}
	return true
}

// optimizerUnwraps (C09-i / C14-f): what optimizeRule may put in the place of the expression it is given. Replacing a
// node by one of its operands preserves the language only for the two list kinds when the list has exactly one
// element (a choice of one alternative, a sequence of one item): every other kind does something of its own around
// its operand (repeats it, negates it, binds a label, runs a block, installs or leaves a recovery handler). The rule
// reads the normalised paths of optimizeRule: each returns (a) the expression it was given, (b) a clone made by
// cloneExpr (the inlining of a reference; its guard is C09-f(4)), (c) element 0 of a []Expression field of the given
// expression under the fact that this list has length 1, or (d) optimizeRule of one of these.
func optimizerUnwraps(c *Ctx, g *load.G, rule string) {
	r := c.R
	ap := g.Pkg("ast")
	fd := load.FuncDecl(ap, "grammarOptimizer", "optimizeRule")
	if fd == nil {
		r.Fatal("anchor grammarOptimizer.optimizeRule not found")
		return
	}
	recv, x := recvName(fd), firstParam(fd)
	// list fields of the expression kinds
	listFields := map[string]bool{}
	for _, name := range ap.Types.Scope().Names() {
		tn, ok := ap.Types.Scope().Lookup(name).(*types.TypeName)
		if !ok {
			continue
		}
		st, ok := tn.Type().Underlying().(*types.Struct)
		if !ok {
			continue
		}
		for i := 0; i < st.NumFields(); i++ {
			if sl, ok := st.Field(i).Type().(*types.Slice); ok && types.TypeString(sl.Elem(), func(*types.Package) string { return "" }) == "Expression" {
				listFields[st.Field(i).Name()] = true
			}
		}
	}
	paths := c.astNorm().normPaths(fd)
	n := 0
	var bad []string
	for _, p := range paths {
		for i, e := range p {
			if e.Kind != "return" {
				continue
			}
			n++
			t := stripAsserts(e.Text)
			for strings.HasPrefix(t, recv+".optimizeRule(") && strings.HasSuffix(t, ")") {
				t = strings.TrimSuffix(strings.TrimPrefix(t, recv+".optimizeRule("), ")")
			}
			switch {
			case t == x:
			case strings.HasPrefix(t, "cloneExpr("):
			case strings.HasPrefix(t, x+".") && strings.HasSuffix(t, "[0]") && listFields[strings.TrimSuffix(strings.TrimPrefix(t, x+"."), "[0]")]:
				list := strings.TrimSuffix(t, "[0]")
				single := false
				for _, f := range p[:i].facts() {
					for _, cj := range splitTop(f, "&&") {
						if stripAsserts(cj) == "len("+list+")==1" {
							single = true
						}
					}
				}
				if !single {
					bad = append(bad, fmt.Sprintf("a path returns %s without the fact len(%s)==1 (facts: %s): the other elements of the list are dropped", t, list, abbreviate(strings.Join(p[:i].facts(), " "))))
				}
			default:
				bad = append(bad, fmt.Sprintf("a path returns %s in the place of %s (facts: %s): only a choice or sequence with a single element means the same as that element - an operand of any other kind (the handler of a recovery operator, the operand of a predicate, repetition, label or action) does not mean what the node means", e.Text, x, abbreviate(strings.Join(p[:i].facts(), " "))))
			}
		}
	}
	r.Analysed["optimizeRule_returns"] = n
	r.Check(len(bad) == 0 && n >= 4, rule, "G.ast.optimizeRule:replaces-a-node-only-by-its-single-element-or-a-clone", "", g.Where(fd.Pos()),
		fmt.Sprintf("%d returning paths: the expression itself, a clone of the referenced rule, or the only element of a list", n), strings.Join(uniq(bad), "; "))
}

// classTextIsDisplayOnly (C09-j): the text of a character class (CharClassMatcher.Val) identifies the class only as
// long as the front-end wrote it. The optimizer rebuilds it for merged classes from the member lists without
// escaping '^', '-', ']' or '\\' (the literals '^' / '*' merge into a class whose text reads "[^*]"), so after
// -optimize-grammar two different classes can carry the same text. That is harmless while the text is only shown
// (the `val:` key of the emitted matcher, used in the expected-list of error messages); any other reader in the
// builder or the optimizer - a map key, a comparison, a cache - treats different classes as one.
func classTextIsDisplayOnly(c *Ctx, g *load.G, rule string) {
	r := c.R
	n := 0
	var bad []string
	for _, sfx := range []string{"builder", "ast"} {
		p := g.Pkg(sfx)
		if p == nil {
			continue
		}
		for i, f := range p.Syntax {
			fn := p.CompiledGoFiles[i]
			if strings.HasSuffix(fn, "_test.go") || sfx == "ast" && !strings.HasSuffix(fn, "ast_optimize.go") {
				continue
			}
			var stack []ast.Node
			ast.Inspect(f, func(nd ast.Node) bool {
				if nd == nil {
					stack = stack[:len(stack)-1]
					return true
				}
				stack = append(stack, nd)
				se, ok := nd.(*ast.SelectorExpr)
				if !ok || se.Sel.Name != "Val" {
					return true
				}
				t := p.TypesInfo.TypeOf(se.X)
				if t == nil || namedOf(t) != "CharClassMatcher" {
					return true
				}
				// a store (the optimizer rebuilding the text) is not a read
				if len(stack) >= 2 {
					if as, ok := stack[len(stack)-2].(*ast.AssignStmt); ok {
						for _, l := range as.Lhs {
							if l == ast.Expr(se) {
								return true
							}
						}
					}
				}
				n++
				// accepted: an argument of an emission whose constant format writes the `val:` key
				okUse := false
				for k := len(stack) - 2; k >= 0; k-- {
					ce, ok := stack[k].(*ast.CallExpr)
					if !ok {
						continue
					}
					if cs := callSel(ce); (cs == "writelnf" || cs == "writef") && len(ce.Args) >= 2 {
						// the text is written out (as the `val:` key today): shown, not compared
						for _, a := range ce.Args[1:] {
							if a == ast.Expr(se) {
								okUse = true
							}
						}
					}
					break
				}
				if !okUse {
					bad = append(bad, fmt.Sprintf("%s reads the text of a character class for something other than writing it out (the emitted `val:` key)", g.Where(se.Pos())))
				}
				return true
			})
		}
	}
	r.Analysed["class_text_reads"] = n
	r.Check(len(bad) == 0 && n >= 1, rule, "G:class-text-is-display-only", "", "builder/, ast/ast_optimize.go",
		fmt.Sprintf("%d read(s) of CharClassMatcher.Val, all emitting the `val:` key", n),
		strings.Join(bad, "; ")+": the optimizer rebuilds that text from the member lists without escaping ^ - ] \\\\ ('^' / '*' becomes a class that reads \"[^*]\"), so with -optimize-grammar two different classes can carry the same text and are taken for one")
}

var helperCallRe = regexp.MustCompile(`^([A-Za-z_]\w*)\(([^(),]+)\)$`)

// dedupHelperKeepsMembers: the obligations of C09-f on a helper `func h(list []T) []T` that removes duplicates: it
// returns nil for an empty list, and otherwise a list built only by appending, in a loop over the parameter, the member
// the loop stands at - exactly when a set keyed by that member did not hold it yet.
func dedupHelperKeepsMembers(paths []bpath, param string) string {
	if len(paths) == 0 {
		return "no paths"
	}
	var bad []string
	loops := 0
	for _, p := range paths {
		ret := ""
		for _, e := range p {
			if e.Kind == "return" {
				ret = e.Text
			}
		}
		switch {
		case ret == "nil":
			if !p.holds("len(" + param + ")==0") {
				bad = append(bad, "returns nil for a list that is not known to be empty")
			}
			continue
		case ret == param:
			if !p.holds("len(" + param + ")==0") {
				bad = append(bad, "returns the list as it came")
			}
			continue
		case dollarRe.FindString(ret) != ret || ret == "":
			bad = append(bad, "returns "+abbreviate(ret)+", not the list of kept members")
			continue
		}
		lo, hi := loopSpan(p, "range "+param)
		if lo < 0 {
			bad = append(bad, "no loop over the list")
			continue
		}
		loops++
		member := param + "[#1]"
		seen, kept := false, false
		for i, e := range p {
			if e.Kind != "set" || !strings.HasPrefix(e.Text, ret+"=") {
				continue
			}
			rhs := strings.TrimPrefix(e.Text, ret+"=")
			if strings.HasPrefix(rhs, "make(") {
				continue
			}
			if rhs != "append("+ret+","+member+")" || i < lo || i >= hi {
				bad = append(bad, "the kept list receives "+abbreviate(rhs)+", expected the member the loop stands at")
				continue
			}
			kept = true
			keyOK := false
			for _, f := range p[:i].facts() {
				if strings.HasPrefix(f, "!ok($") && strings.HasSuffix(f, "["+member+"])") {
					keyOK = true
				}
			}
			if !keyOK {
				bad = append(bad, "a member is kept without the not-seen-before test on the member itself")
			}
		}
		for _, e := range p[lo:hi] {
			if e.Kind == "+" && strings.HasPrefix(e.Text, "ok($") {
				seen = true
			}
		}
		if seen == kept && hi > lo+1 {
			bad = append(bad, "a member is kept although it was seen, or dropped although it was not")
		}
	}
	if loops == 0 {
		bad = append(bad, "no path rebuilds the list")
	}
	return strings.Join(uniq(bad), "; ")
}
