package rules

import (
	"fmt"
	"go/ast"
	"go/parser"
	"go/token"
	"regexp"
	"sort"
	"strconv"
	"strings"
)

// Normal-form path enumeration (DESIGN.md §9.8).
//
// Rules about the small functions of the generator and of the runtime are stated over the set of *normalised paths*
// of a function rather than over its syntax, so that refactorings which do not change behaviour do not change what a
// rule sees:
//
//   - control structure: if/else vs. guard clause, inverted conditions, merged or split conjunctions, switch vs.
//     if-chain all yield the same sets of facts on the same paths (facts are conditions in the normal form of
//     canonCond, conjunctions split into their conjuncts; a `switch tag { case v: }` clause contributes tag==v);
//   - names: locals with a single definition are replaced by their defining expression; the remaining locals are
//     numbered in order of appearance ($1, $2, …); loop variables are rendered positionally (#1 for the index / key
//     of the outermost loop, X[#1] for its element);
//   - loops: `for i := 0; i < len(X); i++` and `for i := range X` / `for _, e := range X` are the same loop;
//   - helpers: a call to a small function or method of the same package in statement position, as the value of a
//     return, or as the only value of an assignment is replaced by the callee's paths with parameters substituted
//     (bounded depth, no recursion).
//
// Events of a path: "+" fact, "call" (callee(args); "ccall" when it is in the right operand of && or ||), "set" (target=value, for fields, elements and multi-definition
// locals), "return" (values), "loop"/"endloop", "branch", "tcase" (type-switch clause).

type nctx struct {
	funcs     map[string]*ast.FuncDecl // "Recv.Name" and "Name" -> declaration
	noInline  map[string]bool          // callees never expanded (by function name)
	expanded  map[*ast.FuncDecl]bool   // helpers expanded by the enumerations run on this context
	consts    map[string]string        // package-level constants with a literal value: name -> literal text
	callSites map[string]int           // calls per function name over the package (lazily computed)
}

// without returns a copy of the context that does not expand calls of the named functions.
func (c *nctx) without(names ...string) *nctx {
	n := &nctx{funcs: c.funcs, noInline: map[string]bool{}, consts: c.consts}
	for k := range c.noInline {
		n.noInline[k] = true
	}
	for _, k := range names {
		n.noInline[k] = true
	}
	return n
}

// Models of library functions that take or hide a loop: the call is expanded from the model like a package helper, so
// `slices.ContainsFunc(xs, func(x T) bool { return p(x) })` reads like the loop it abbreviates.
const libModelSrc = `package model

func slices_Contains(s []any, want any) bool {
	for _, v := range s {
		if v == want {
			return true
		}
	}
	return false
}

func slices_ContainsFunc(s []any, f func(any) bool) bool {
	for _, v := range s {
		if f(v) {
			return true
		}
	}
	return false
}

func slices_Index(s []any, want any) int {
	for i, v := range s {
		if v == want {
			return i
		}
	}
	return -1
}

func slices_IndexFunc(s []any, f func(any) bool) int {
	for i, v := range s {
		if f(v) {
			return i
		}
	}
	return -1
}
`

var libModels = map[string]bool{}

var libModelDecls = func() map[string]*ast.FuncDecl {
	out := map[string]*ast.FuncDecl{}
	f, err := parser.ParseFile(token.NewFileSet(), "model.go", libModelSrc, 0)
	if err != nil {
		panic(err)
	}
	for _, d := range f.Decls {
		if fd, ok := d.(*ast.FuncDecl); ok {
			key := strings.Replace(fd.Name.Name, "_", ".", 1)
			out[key] = fd
			libModels[key] = true
		}
	}
	return out
}()

func newNctx(decls []*ast.FuncDecl) *nctx {
	c := &nctx{funcs: map[string]*ast.FuncDecl{}}
	for k, d := range libModelDecls {
		c.funcs[k] = d
	}
	for _, d := range decls {
		if d.Body == nil {
			continue
		}
		if d.Recv != nil && len(d.Recv.List) == 1 {
			t := nospace(d.Recv.List[0].Type)
			t = strings.TrimPrefix(t, "*")
			c.funcs[t+"."+d.Name.Name] = d
			if _, dup := c.funcs["."+d.Name.Name]; !dup {
				c.funcs["."+d.Name.Name] = d // by method name alone (used when the receiver type is not known)
			} else {
				c.funcs["."+d.Name.Name] = nil // ambiguous
			}
		} else {
			c.funcs[d.Name.Name] = d
		}
	}
	return c
}

// nframe is one function activation during enumeration (the analysed function, or an inlined helper).
type nframe struct {
	fd     *ast.FuncDecl
	subst  map[string]string   // identifier -> replacement text (parameters, receiver, loop variables)
	defs   map[string]ast.Expr // single-definition locals
	multi  map[string]string   // multi-definition locals -> $n
	ptr    map[string]bool     // pointer parameters bound to &x: *p is x
	retTo  []ast.Expr          // inlined call: assignment targets of the call's results (nil: results dropped)
	retTok token.Token
	tail   bool // inlined call in return position: the helper's returns are the caller's
	parent *nframe
	level  int
	// function literals: a local defined once as a literal, or a function-typed parameter bound to one, is expanded at
	// its calls like a helper; lexical is the frame the literal was written in (its free variables are named there)
	closures map[string]*nclosure
	lexical  *nframe
	// a local defined once as the address of an existing variable or field (`pos := &c.pos`) is a name for it:
	// pos.line reads c.pos.line, *pos reads c.pos
	ptrAlias map[string]ast.Expr
}

type nclosure struct {
	decl *ast.FuncDecl // the literal as a declaration (name = the local's name)
	lex  *nframe
}

type nstate struct {
	p    bpath
	brk  int // switch level left by an unlabelled break
	ret  int // frame level left by a return of an inlined helper
	skip int // loop depth whose current iteration was left by break / continue: statements are skipped up to its end
}

type nenum struct {
	c          *nctx
	cur        []nstate
	finished   []bpath
	depth      int // loop depth
	swLevel    int
	swDepth    []int
	overflow   bool
	counter    *int
	inlining   map[*ast.FuncDecl]bool
	closureLex map[*ast.FuncDecl]*nframe // frame in which an expanded function literal was written
	litDecls   map[*ast.FuncLit]*ast.FuncDecl
	extraScan  *ast.FuncLit   // function literal containing the analysed block (normBlock)
	labels     map[string]int // label of a loop -> its depth
	baseDepth  int            // loop depth of the analysed block itself (normBlock): branches at this depth leave it
}

// endIteration re-activates the paths that left the current iteration of the loop at the current depth.
func (e *nenum) endIteration() {
	for i := range e.cur {
		if e.cur[i].skip == e.depth {
			e.cur[i].skip = 0
		}
	}
}

// normPaths enumerates the normalised paths of fd's body (nil on overflow).
func (c *nctx) normPaths(fd *ast.FuncDecl) []bpath {
	p, _ := c.normPathsNamed(fd)
	return p
}

// normPathsNamed also returns the numbering of fd's own multi-definition locals (name -> $n).
func (c *nctx) normPathsNamed(fd *ast.FuncDecl) ([]bpath, map[string]string) {
	if fd == nil || fd.Body == nil {
		return nil, nil
	}
	n := 0
	e := &nenum{c: c, cur: []nstate{{}}, counter: &n, inlining: map[*ast.FuncDecl]bool{fd: true}}
	fr := e.newFrame(fd, nil, nil)
	paths := e.runTop(fr, fd)
	return paths, fr.multi
}

// zeroNamedResults: named results start as zero values.
func (e *nenum) zeroNamedResults(fr *nframe, fd *ast.FuncDecl) {
	if fd.Type.Results == nil {
		return
	}
	for _, f := range fd.Type.Results.List {
		for _, nm := range f.Names {
			if num, ok := fr.multi[lname(nm)]; ok && lname(nm) != "_" {
				e.add(pev{"set", num + "=zero", fd})
			}
		}
	}
}

func (e *nenum) runTop(fr *nframe, fd *ast.FuncDecl) []bpath {
	e.zeroNamedResults(fr, fd)
	e.stmts(fr, fd.Body.List)
	if e.overflow {
		return nil
	}
	out := append([]bpath{}, e.finished...)
	for _, s := range e.cur {
		out = append(out, s.p)
	}
	return propagateAll(runDeferred(out))
}

// runDeferred: a deferred plain call runs when the function returns: its call event is repeated just before the
// return that ends the path (last deferred first), so that `defer cleanup()` after an acquire and an explicit
// cleanup() before the return read the same. Deferred closures keep their own rules.
func runDeferred(paths []bpath) []bpath {
	for i, p := range paths {
		var deferred []pev
		for _, e := range p {
			if e.Kind == "call" && strings.HasPrefix(e.Text, "defer ") && !strings.HasPrefix(e.Text, "defer (func(") && !strings.HasPrefix(e.Text, "defer func(") {
				deferred = append(deferred, pev{"call", strings.TrimPrefix(e.Text, "defer "), e.Node})
			}
		}
		if len(deferred) == 0 {
			continue
		}
		q := make(bpath, 0, len(p)+len(deferred))
		end := len(p)
		if end > 0 && p[end-1].Kind == "return" {
			end--
		}
		q = append(q, p[:end]...)
		for k := len(deferred) - 1; k >= 0; k-- {
			q = append(q, deferred[k])
		}
		q = append(q, p[end:]...)
		paths[i] = q
	}
	return paths
}

// propagateAll propagates values along every path and drops the paths that became infeasible (a fact reads false).
func propagateAll(in []bpath) []bpath {
	var out []bpath
	for _, p := range in {
		q, raws := propagateRaw(p)
		feasible := true
		// a local tested twice on one path, with no store to it in between, has one value: `$n` and `!$n` cannot
		// both be assumed, whatever expression the local stands for
		for i := range q {
			if q[i].Kind != "+" || i >= len(raws) {
				continue
			}
			ri := raws[i]
			name := strings.TrimPrefix(ri, "!")
			if dollarRe.FindString(name) != name || name == "" {
				continue
			}
			for j := i + 1; j < len(q) && j < len(raws); j++ {
				if q[j].Kind == "set" && strings.HasPrefix(q[j].Text, name+"=") {
					break
				}
				if q[j].Kind == "+" && strings.TrimPrefix(raws[j], "!") == name && raws[j] != ri {
					feasible = false
				}
			}
		}
		// facts decided by their own text: nil compared with nil, a freshly built error compared with nil
		var kept bpath
		for _, e := range q {
			if e.Kind == "+" {
				if known, val := selfDecided(e.Text); known {
					if !val {
						feasible = false
					}
					continue
				}
			}
			kept = append(kept, e)
		}
		q = kept
		for i, e := range q {
			if e.Kind != "+" {
				continue
			}
			if e.Text == "false" || e.Text == "!true" {
				feasible = false
			}
			// a fact and its negation on one path, with nothing in between that could change what it talks about
			neg := canonText(e.Text, true)
			for j := i + 1; j < len(q) && feasible; j++ {
				switch q[j].Kind {
				case "set":
					lhs := q[j].Text
					if k := indexTop(lhs, "="); k > 0 {
						lhs = strings.TrimRight(lhs[:k], "+-*/|&")
					}
					lhs = strings.TrimSuffix(strings.TrimSuffix(lhs, "++"), "--")
					if strings.Contains(e.Text, lhs) {
						j = len(q) // the subject may have changed
					}
				case "call", "ccall":
					if strings.Contains(e.Text, "(") {
						j = len(q) // facts about call results are not stable across other calls
					}
				case "+":
					if q[j].Text == neg {
						feasible = false
					}
				}
			}
		}
		if feasible {
			out = append(out, mergeWrites(q))
		}
	}
	return out
}

var writeCallRe = regexp.MustCompile(`^((?:\$\d+|[A-Za-z_]\w*)(?:\.[A-Za-z_]\w*)*)\.(WriteString|WriteByte|WriteRune)\((.*)\)$`)

// writeOperand renders the argument of a buffer write as a string expression (a byte or rune literal becomes the
// one-character string literal).
func writeOperand(method, arg string) (string, bool) {
	if method == "WriteString" {
		return arg, true
	}
	if len(arg) >= 3 && arg[0] == '\'' && arg[len(arg)-1] == '\'' {
		if r, _, tail, err := strconv.UnquoteChar(arg[1:len(arg)-1], '\''); err == nil && tail == "" {
			return strconv.Quote(string(r)), true
		}
	}
	return "", false
}

// mergeWrites: consecutive writes to one buffer append the concatenation of their operands; they read as a single
// WriteString of it (`b.WriteString(x); b.WriteByte('\n')` is `b.WriteString(x + "\n")`). Only the evaluation of the
// later write's own operand may lie between the two.
func mergeWrites(p bpath) bpath {
	last := -1 // index in out of the pending write
	var lastBuf, lastArg string
	out := make(bpath, 0, len(p))
	for _, ev := range p {
		if ev.Kind == "call" {
			if m := writeCallRe.FindStringSubmatch(ev.Text); m != nil {
				arg, ok := writeOperand(m[2], m[3])
				if ok && last >= 0 && lastBuf == m[1] {
					between := true
					for _, b := range out[last+1:] {
						if b.Kind == "set" && memWriteResRe.MatchString(b.Text) {
							continue
						}
						if b.Kind != "call" || !strings.Contains(m[3], b.Text) {
							between = false
						}
					}
					if between {
						joined := lastArg + "+" + arg
						if isStringLit(lastArg) && isStringLit(arg) {
							a, _ := strconv.Unquote(lastArg)
							b, _ := strconv.Unquote(arg)
							joined = strconv.Quote(a + b)
						} else if k := strings.LastIndex(lastArg, `+"`); k > 0 && isStringLit(lastArg[k+1:]) && isStringLit(arg) {
							a, _ := strconv.Unquote(lastArg[k+1:])
							b, _ := strconv.Unquote(arg)
							joined = lastArg[:k+1] + strconv.Quote(a+b)
						}
						merged := ev
						merged.Text = m[1] + ".WriteString(" + joined + ")"
						rest := append(bpath{}, out[last+1:]...)
						out = append(out[:last], rest...)
						out = append(out, merged)
						last, lastArg = len(out)-1, joined
						continue
					}
				}
				out = append(out, ev)
				if ok {
					if m[2] != "WriteString" {
						out[len(out)-1].Text = m[1] + ".WriteString(" + arg + ")"
					}
					last, lastBuf, lastArg = len(out)-1, m[1], arg
				} else {
					last = -1
				}
				continue
			}
		}
		// the results of the writes themselves (n, err := b.WriteString(x)) do not separate two writes
		if ev.Kind != "call" && !(ev.Kind == "set" && memWriteResRe.MatchString(ev.Text)) {
			last = -1
		}
		out = append(out, ev)
	}
	return out
}

func isStringLit(s string) bool {
	if len(s) < 2 || s[0] != '"' {
		return false
	}
	_, err := strconv.Unquote(s)
	return err == nil
}

// wholeCall: the text is one call expression f(...) and nothing after it.
func wholeCall(s string) bool {
	i := strings.Index(s, "(")
	if i < 0 || !strings.HasSuffix(s, ")") {
		return false
	}
	depth := 0
	inStr := byte(0)
	for j := i; j < len(s); j++ {
		ch := s[j]
		if inStr != 0 {
			if ch == '\\' && inStr != '`' {
				j++
			} else if ch == inStr {
				inStr = 0
			}
			continue
		}
		switch ch {
		case '"', '`', '\'':
			inStr = ch
		case '(':
			depth++
		case ')':
			depth--
			if depth == 0 {
				return j == len(s)-1
			}
		}
	}
	return false
}

// selfDecided: a fact whose truth does not depend on the program state.
func selfDecided(f string) (known, val bool) {
	switch f {
	case "true", "!false":
		return true, true
	case "false", "!true":
		return true, false
	}
	for _, op := range []string{"==", "!="} {
		i := indexTop(f, op)
		if i <= 0 || indexTop(f, "&&") >= 0 || indexTop(f, "||") >= 0 {
			continue
		}
		l, r := f[:i], f[i+2:]
		if r != "nil" {
			l, r = r, l
		}
		if r != "nil" {
			continue
		}
		switch {
		case l == "nil":
			return true, op == "=="
		case (strings.HasPrefix(l, "fmt.Errorf(") || strings.HasPrefix(l, "errors.New(")) && wholeCall(l):
			return true, op == "!="
		case memWriteErrRe.MatchString(l) && wholeCall(l):
			// the error of a write into a local in-memory buffer (bytes.Buffer, strings.Builder) is always nil
			return true, op == "=="
		}
	}
	return false, false
}

var memWriteErrRe = regexp.MustCompile(`^(?:nth\d+\()?(?:res1\(\$[0-9]+\.(WriteString|WriteRune)\(|\$[0-9]+\.WriteByte\()`)
var memWriteResRe = regexp.MustCompile(`^\$[0-9]+=(?:nth\d+\()?(?:res[01]\(\$[0-9]+\.(WriteString|WriteRune)\(|\$[0-9]+\.WriteByte\()`)
var dollarRe = regexp.MustCompile(`\$[0-9]+`)
var opAssignRe = regexp.MustCompile(`^(\$[0-9]+)([-+*/|&])=(.*)$`)
var loopStepRe = regexp.MustCompile(`(\$[0-9]+)(\+\+|--|[-+*/]=)`)
var allocCallRe = regexp.MustCompile(`^(\w+\.)?New\w*\(`)

// propagate replaces, along one path, every use of a numbered local by the value it was last set to on that path
// when that value is a plain value (not an allocation, not a container update): `$1=false … $1=true … return $1`
// reads `return true`. Loops are unrolled once, so a value set in the loop body is the value seen after it.
func propagate(p bpath) bpath {
	q, _ := propagateRaw(p)
	return q
}

// propagateRaw is propagate; raw[i] is the text of fact i before values were substituted ("" for other events).
func propagateRaw(p bpath) (bpath, []string) {
	env := map[string]string{}
	// the stores of one tuple assignment (`a, b = f(a)`) all read the values from before the assignment
	var tupleEnv map[string]string
	var tupleNode ast.Node
	sub := func(s string) string {
		from := env
		if tupleEnv != nil {
			from = tupleEnv
		}
		if len(from) == 0 || !strings.Contains(s, "$") {
			return s
		}
		return dollarRe.ReplaceAllStringFunc(s, func(m string) string {
			if v, ok := from[m]; ok {
				return v
			}
			return m
		})
	}
	plain := func(v string) bool {
		if v == "" || strings.ContainsAny(v, "{") {
			return false
		}
		for _, pre := range []string{"make(", "new(", "&", "append(", "zero"} {
			if strings.HasPrefix(v, pre) {
				return false
			}
		}
		if allocCallRe.MatchString(v) {
			return false // a constructor: the local names an object
		}
		return true
	}
	out := make(bpath, 0, len(p))
	var raws []string
	seenCall := map[string]int{}
	// a numbered local that is stored into (as a base) or has methods with effects called on it names an object
	object := map[string]bool{}
	for _, ev := range p {
		if ev.Kind == "set" {
			if m := dollarRe.FindString(ev.Text); m != "" && strings.HasPrefix(ev.Text, m) && len(ev.Text) > len(m) && (ev.Text[len(m)] == '[' || ev.Text[len(m)] == '.') {
				object[m] = true
			}
		}
		if ev.Kind == "call" || ev.Kind == "ccall" {
			// sorted or reversed in place: the local names the slice that is rearranged, not the value it was given
			for _, pre := range []string{"slices.Sort(", "slices.SortFunc(", "slices.SortStableFunc(", "slices.Reverse(", "sort.Strings(", "sort.Ints(", "sort.Slice(", "sort.Sort("} {
				if strings.HasPrefix(ev.Text, pre) {
					if m := dollarRe.FindString(ev.Text[len(pre):]); m != "" && strings.HasPrefix(ev.Text[len(pre):], m) {
						object[m] = true
					}
				}
			}
			if m := dollarRe.FindString(ev.Text); m != "" && strings.HasPrefix(ev.Text, m+".") {
				rest := ev.Text[len(m)+1:]
				for _, mm := range []string{"WriteString(", "WriteRune(", "WriteByte(", "Write(", "Reset(", "Grow(", "Discard("} {
					if strings.HasPrefix(rest, mm) {
						object[m] = true
					}
				}
			}
		}
	}
	for _, ev := range p {
		ne := ev
		if as, ok := ev.Node.(*ast.AssignStmt); ok && ev.Kind == "set" && len(as.Lhs) > 1 {
			if tupleNode != ev.Node {
				tupleNode = ev.Node
				tupleEnv = map[string]string{}
				for k, v := range env {
					tupleEnv[k] = v
				}
			}
		} else {
			tupleNode, tupleEnv = nil, nil
		}
		if ev.Kind == "loop" {
			if strings.HasPrefix(ev.Text, "range ") {
				ne.Text = "range " + minParens(sub(strings.TrimPrefix(ev.Text, "range ")))
			}
			raws = append(raws, "")
			out = append(out, ne) // a counting header keeps its variables: the bounds are read from the preceding sets
			// a variable stepped by the loop is not a constant inside it
			for _, m := range loopStepRe.FindAllStringSubmatch(ev.Text, -1) {
				delete(env, m[1])
			}
			continue
		}
		if ev.Kind == "set" {
			// op-assignment to a numbered local: $n += v  reads  $n = <old> + v
			if m := opAssignRe.FindStringSubmatch(ev.Text); m != nil {
				name, op, v := m[1], m[2], sub(m[3])
				ne.Text = name + op + "=" + v
				if old, ok := env[name]; ok && !object[name] {
					env[name] = "(" + old + op + v + ")"
				} else {
					delete(env, name)
				}
				raws = append(raws, "")
				out = append(out, ne)
				continue
			}
			if i := strings.Index(ev.Text, "="); i > 0 && dollarRe.MatchString(ev.Text[:i]) && dollarRe.FindString(ev.Text[:i]) == ev.Text[:i] {
				name, v := ev.Text[:i], sub(ev.Text[i+1:])
				// the result of a call: a second evaluation of the same call text on this path is a different value
				// (a copy of a local that holds a call's result evaluates nothing)
				if strings.Contains(ev.Text[i+1:], "(") && !strings.HasPrefix(v, "append(") {
					seenCall[v]++
					if k := seenCall[v]; k > 1 {
						v = fmt.Sprintf("nth%d(%s)", k, v)
					}
				}
				ne.Text = name + "=" + v
				if plain(v) && !strings.Contains(v, name) && !object[name] {
					env[name] = "(" + v + ")"
					if isAtomText(v) {
						env[name] = v
					}
				} else {
					delete(env, name)
				}
				raws = append(raws, "")
				out = append(out, ne)
				continue
			}
		}
		ne.Text = sub(ev.Text)
		if ev.Kind == "+" {
			ne.Text = canonText(ne.Text, false)
			raws = append(raws, ev.Text)
		} else {
			raws = append(raws, "")
		}
		out = append(out, ne)
	}
	for i := range out {
		out[i].Text = minParensEvent(out[i].Kind, out[i].Text)
	}
	return out, raws
}

// minParensEvent removes the parentheses that substitution introduced where precedence does not need them.
func minParensEvent(kind, text string) string {
	if !strings.Contains(text, "(") {
		return text
	}
	switch kind {
	case "set":
		// target op value: split at the first top-level assignment operator
		for _, op := range []string{"+=", "-=", "*=", "/=", "|=", "&=", "="} {
			if i := indexTop(text, op); i > 0 && (op != "=" || (text[i-1] != '=' && text[i-1] != '!' && text[i-1] != '<' && text[i-1] != '>' && (i+1 >= len(text) || text[i+1] != '='))) {
				return minParens(text[:i]) + op + minParens(text[i+len(op):])
			}
		}
		return text
	case "return":
		parts := splitTop(text, ",")
		for i := range parts {
			parts[i] = minParens(parts[i])
		}
		return strings.Join(parts, ",")
	case "+", "call", "ccall":
		return minParens(text)
	}
	return text
}

// indexTop returns the index of the first occurrence of sep outside brackets and quotes (-1 if none).
func indexTop(s, sep string) int {
	depth := 0
	inStr := byte(0)
	for i := 0; i < len(s); i++ {
		ch := s[i]
		if inStr != 0 {
			if ch == '\\' && inStr != '`' {
				i++
			} else if ch == inStr {
				inStr = 0
			}
			continue
		}
		switch ch {
		case '"', '\'', '`':
			inStr = ch
		case '(', '[', '{':
			depth++
		case ')', ']', '}':
			depth--
		default:
			if depth == 0 && strings.HasPrefix(s[i:], sep) {
				return i
			}
		}
	}
	return -1
}

var minParensCache = map[string]string{}

// minParens re-renders an expression text with only the parentheses precedence requires ("" stays "").
func minParens(s string) string {
	if s == "" || !strings.Contains(s, "(") {
		return s
	}
	if v, ok := minParensCache[s]; ok {
		return v
	}
	out := s
	enc := strings.NewReplacer("$", "DOLLAR_", "#", "HASH_").Replace(s)
	if e, err := parser.ParseExpr(enc); err == nil {
		out = strings.NewReplacer("DOLLAR_", "$", "HASH_", "#").Replace(renderMin(e, 0))
	}
	minParensCache[s] = out
	return out
}

// renderMin prints e without blanks, parenthesising a sub-expression only when its operator binds weaker than the
// context requires.
func renderMin(e ast.Expr, ctx int) string {
	switch x := e.(type) {
	case *ast.ParenExpr:
		return renderMin(x.X, ctx)
	case *ast.BinaryExpr:
		pr := x.Op.Precedence()
		s := renderMin(x.X, pr) + x.Op.String() + renderMin(x.Y, pr+1)
		if pr < ctx {
			return "(" + s + ")"
		}
		return s
	case *ast.UnaryExpr:
		s := x.Op.String() + renderMin(x.X, 6)
		if ctx > 6 {
			return "(" + s + ")"
		}
		return s
	case *ast.StarExpr:
		s := "*" + renderMin(x.X, 6)
		if ctx > 6 {
			return "(" + s + ")"
		}
		return s
	case *ast.SelectorExpr:
		return renderMin(x.X, 7) + "." + x.Sel.Name
	case *ast.IndexExpr:
		return renderMin(x.X, 7) + "[" + renderMin(x.Index, 0) + "]"
	case *ast.SliceExpr:
		lo, hi := "", ""
		if x.Low != nil {
			lo = renderMin(x.Low, 0)
		}
		if x.High != nil {
			hi = renderMin(x.High, 0)
		}
		return renderMin(x.X, 7) + "[" + lo + ":" + hi + "]"
	case *ast.TypeAssertExpr:
		if x.Type == nil {
			return renderMin(x.X, 7) + ".(type)"
		}
		return renderMin(x.X, 7) + ".(" + nospaceLit(x.Type) + ")"
	case *ast.CallExpr:
		var as []string
		for _, a := range x.Args {
			as = append(as, renderMin(a, 0))
		}
		ell := ""
		if x.Ellipsis.IsValid() {
			ell = "..."
		}
		return renderMin(x.Fun, 7) + "(" + strings.Join(as, ",") + ell + ")"
	case *ast.KeyValueExpr:
		return nospaceLit(x.Key) + ":" + renderMin(x.Value, 0)
	case *ast.CompositeLit:
		var es []string
		for _, el := range x.Elts {
			es = append(es, renderMin(el, 0))
		}
		t := ""
		if x.Type != nil {
			t = nospaceLit(x.Type)
		}
		return t + "{" + strings.Join(es, ",") + "}"
	}
	return nospaceLit(e)
}

// isAtomText: the text is a primary expression (no operator at all), so it needs no parentheses when substituted.
func isAtomText(v string) bool {
	return v != "" && !strings.ContainsAny(v, "+-*/<>=!&|^% ")
}

// normBlock enumerates the paths of one block of fd (e.g. a loop body or a case clause) in fd's naming context.
func (c *nctx) normBlock(fd *ast.FuncDecl, list []ast.Stmt) []bpath {
	p, _ := c.normBlockNamed(fd, list)
	return p
}

// normBlockNamed also returns the numbering of fd's multi-definition locals (name -> $n).
func (c *nctx) normBlockNamed(fd *ast.FuncDecl, list []ast.Stmt) ([]bpath, map[string]string) {
	n := 0
	e := &nenum{c: c, cur: []nstate{{}}, counter: &n, inlining: map[*ast.FuncDecl]bool{fd: true}}
	if len(list) > 0 {
		ast.Inspect(fd.Body, func(nd ast.Node) bool {
			if fl, ok := nd.(*ast.FuncLit); ok && fl.Body.Pos() <= list[0].Pos() && list[0].Pos() < fl.Body.End() {
				e.extraScan = fl
			}
			return true
		})
	}
	fr := e.newFrame(fd, nil, nil)
	// loop variables of the loops enclosing the block
	if len(list) > 0 {
		pos := list[0].Pos()
		ast.Inspect(fd.Body, func(nd ast.Node) bool {
			if nd == nil || !(nd.Pos() <= pos && pos < nd.End()) {
				return nd == nil
			}
			switch x := nd.(type) {
			case *ast.RangeStmt:
				if x.Body.Pos() <= pos && pos < x.Body.End() {
					e.depth++
					e.bindRange(fr, x)
				}
			case *ast.ForStmt:
				if x.Body.Pos() <= pos && pos < x.Body.End() {
					e.depth++
					e.bindFor(fr, x)
				}
			case *ast.TypeSwitchStmt:
				// the variable bound by an enclosing type switch is the switched value
				if as, ok := x.Assign.(*ast.AssignStmt); ok && x.Body.Pos() <= pos && pos < x.Body.End() {
					if ta, ok := as.Rhs[0].(*ast.TypeAssertExpr); ok {
						if b := nospaceLit(as.Lhs[0]); b != "_" {
							fr.subst[b] = e.render(fr, ta.X)
						}
					}
				}
			}
			return true
		})
		e.baseDepth = e.depth // breaks/continues of the block itself end the path
	}
	e.stmts(fr, list)
	if e.overflow {
		return nil, nil
	}
	out := append([]bpath{}, e.finished...)
	for _, s := range e.cur {
		out = append(out, s.p)
	}
	return propagateAll(out), fr.multi
}

func (e *nenum) newFrame(fd *ast.FuncDecl, parent *nframe, subst map[string]string) *nframe {
	return e.newFrameLex(fd, parent, subst, nil)
}

// declaredIn lists the names a function body declares itself (parameters, results, :=, var, range with :=).
func declaredIn(ft *ast.FuncType, body *ast.BlockStmt) map[string]bool {
	out := map[string]bool{}
	for _, fl := range []*ast.FieldList{ft.Params, ft.Results} {
		if fl != nil {
			for _, f := range fl.List {
				for _, nm := range f.Names {
					out[lname(nm)] = true
				}
			}
		}
	}
	ast.Inspect(body, func(n ast.Node) bool {
		switch x := n.(type) {
		case *ast.FuncLit:
			return false
		case *ast.AssignStmt:
			if x.Tok == token.DEFINE {
				for _, l := range x.Lhs {
					if id, ok := l.(*ast.Ident); ok {
						out[lname(id)] = true
					}
				}
			}
		case *ast.ValueSpec:
			for _, nm := range x.Names {
				out[lname(nm)] = true
			}
		case *ast.RangeStmt:
			if x.Tok == token.DEFINE {
				for _, v := range []ast.Expr{x.Key, x.Value} {
					if id, ok := v.(*ast.Ident); ok {
						out[lname(id)] = true
					}
				}
			}
		}
		return true
	})
	return out
}

func (e *nenum) newFrameLex(fd *ast.FuncDecl, parent *nframe, subst map[string]string, lexical *nframe) *nframe {
	if lexical == nil {
		deshadow(fd) // (a function literal was resolved with the function it is written in)
	}
	fr := &nframe{fd: fd, subst: map[string]string{}, defs: map[string]ast.Expr{}, multi: map[string]string{}, parent: parent, closures: map[string]*nclosure{}, lexical: lexical, ptrAlias: map[string]ast.Expr{}}
	var own map[string]bool
	if lexical != nil {
		own = declaredIn(fd.Type, fd.Body)
	}
	if parent != nil {
		fr.level = parent.level + 1
	}
	for k, v := range subst {
		fr.subst[k] = v
	}
	count := map[string]int{}
	order := []string{}
	note := func(name string, n int) {
		if name == "_" {
			return
		}
		if own != nil && !own[name] {
			return // a variable of the enclosing function: named there
		}
		if _, ok := count[name]; !ok {
			order = append(order, name)
		}
		count[name] += n
	}
	params := map[string]bool{}
	if fd.Type.Params != nil {
		for _, f := range fd.Type.Params.List {
			for _, nm := range f.Names {
				params[lname(nm)] = true
			}
		}
	}
	if fd.Type.Results != nil {
		for _, f := range fd.Type.Results.List {
			for _, nm := range f.Names {
				note(lname(nm), 2) // named results are never inlined
			}
		}
	}
	var scanRoot ast.Node
	scan := func(n ast.Node) bool {
		switch x := n.(type) {
		case *ast.FuncLit:
			if n != scanRoot {
				// what the literal stores into variables of this function counts as a further definition of them
				inner := declaredIn(x.Type, x.Body)
				ast.Inspect(x.Body, func(m ast.Node) bool {
					switch y := m.(type) {
					case *ast.AssignStmt:
						if y.Tok != token.DEFINE {
							for _, l := range y.Lhs {
								if id, ok := l.(*ast.Ident); ok && !inner[lname(id)] {
									note(lname(id), 2)
								}
							}
						}
					case *ast.IncDecStmt:
						if id, ok := y.X.(*ast.Ident); ok && !inner[lname(id)] {
							note(lname(id), 2)
						}
					}
					return true
				})
			}
			return n == scanRoot
		case *ast.AssignStmt:
			if len(x.Rhs) == 1 {
				if ta, ok := x.Rhs[0].(*ast.TypeAssertExpr); ok && ta.Type == nil {
					return true // `switch v := x.(type)`: v is bound per clause (substituted by the switched value)
				}
			}
			for i, l := range x.Lhs {
				id, ok := l.(*ast.Ident)
				if !ok {
					continue
				}
				if params[lname(id)] {
					note(lname(id), 2)
					continue
				}
				if x.Tok == token.DEFINE && len(x.Lhs) == len(x.Rhs) {
					if _, seen := fr.defs[lname(id)]; !seen && count[lname(id)] == 0 {
						fr.defs[lname(id)] = x.Rhs[i]
						if lit, ok := stripParens(x.Rhs[i]).(*ast.FuncLit); ok {
							fr.closures[lname(id)] = &nclosure{decl: e.litDecl(lname(id), lit), lex: fr}
						}
					}
					note(lname(id), 1)
				} else {
					note(lname(id), 2)
				}
			}
		case *ast.ValueSpec:
			for i, nm := range x.Names {
				if i < len(x.Values) && len(x.Values) == len(x.Names) {
					if count[lname(nm)] == 0 {
						fr.defs[lname(nm)] = x.Values[i]
					}
					note(lname(nm), 1)
				} else {
					note(lname(nm), 2)
				}
			}
		case *ast.RangeStmt:
			for _, v := range []ast.Expr{x.Key, x.Value} {
				if id, ok := v.(*ast.Ident); ok {
					note(lname(id), 2)
				}
			}
		case *ast.IncDecStmt:
			if id, ok := x.X.(*ast.Ident); ok {
				note(lname(id), 2)
			}
		case *ast.UnaryExpr:
			if x.Op == token.AND {
				if id, ok := x.X.(*ast.Ident); ok {
					note(lname(id), 2) // address taken: not a value
				}
			}
		}
		return true
	}
	ast.Inspect(fd.Body, scan)
	if parent == nil && e.extraScan != nil {
		// the analysed block lies inside a function literal of fd: its locals belong to the naming context too
		scanRoot = e.extraScan
		ast.Inspect(e.extraScan, scan)
	}
	// a local that names an object (an allocation, or something stored into / address-taken) keeps its identity
	mutated := map[string]bool{}
	ast.Inspect(fd.Body, func(n ast.Node) bool {
		base := func(l ast.Expr) {
			for {
				switch y := l.(type) {
				case *ast.IndexExpr:
					l = y.X
					continue
				case *ast.SelectorExpr:
					l = y.X
					continue
				case *ast.StarExpr:
					l = y.X
					continue
				case *ast.ParenExpr:
					l = y.X
					continue
				}
				break
			}
			if id, ok := l.(*ast.Ident); ok {
				mutated[lname(id)] = true
			}
		}
		switch x := n.(type) {
		case *ast.FuncLit:
			return false
		case *ast.AssignStmt:
			for _, l := range x.Lhs {
				if _, isIdent := l.(*ast.Ident); !isIdent {
					base(l)
				}
			}
		case *ast.IncDecStmt:
			if _, isIdent := x.X.(*ast.Ident); !isIdent {
				base(x.X)
			}
		case *ast.CallExpr:
			// method calls with pointer-like effects on builders / buffers: x.WriteString(..), x.Reset()
			if sel, ok := x.Fun.(*ast.SelectorExpr); ok {
				if id, ok := sel.X.(*ast.Ident); ok {
					switch sel.Sel.Name {
					case "WriteString", "WriteRune", "WriteByte", "Write", "Reset", "Grow":
						mutated[lname(id)] = true
					}
				}
			}
			if callName(x) == "delete" && len(x.Args) == 2 {
				base(x.Args[0])
				if id, ok := x.Args[0].(*ast.Ident); ok {
					mutated[lname(id)] = true
				}
			}
		}
		return true
	})
	isAlloc := func(d ast.Expr) bool {
		switch y := stripParens(d).(type) {
		case *ast.CompositeLit, *ast.FuncLit:
			return true
		case *ast.UnaryExpr:
			return y.Op == token.AND
		case *ast.CallExpr:
			switch callName(y) {
			case "make", "new", "bytes.NewBufferString", "bytes.NewBuffer", "strings.NewReader", "bufio.NewReader":
				return true
			}
		}
		return false
	}
	// a local that is tested by more than one condition keeps its identity: the tests see one value, whatever it is
	condUses := map[string]int{}
	noteCond := func(e ast.Expr) {
		if e == nil {
			return
		}
		seen := map[string]bool{}
		ast.Inspect(e, func(n ast.Node) bool {
			if id, ok := n.(*ast.Ident); ok && !seen[lname(id)] {
				seen[lname(id)] = true
				condUses[lname(id)]++
			}
			return true
		})
	}
	ast.Inspect(fd.Body, func(n ast.Node) bool {
		switch x := n.(type) {
		case *ast.FuncLit:
			return false
		case *ast.IfStmt:
			noteCond(x.Cond)
		case *ast.ForStmt:
			noteCond(x.Cond)
		case *ast.SwitchStmt:
			if x.Tag == nil {
				for _, cl := range x.Body.List {
					for _, ce := range cl.(*ast.CaseClause).List {
						noteCond(ce)
					}
				}
			}
		}
		return true
	})
	for name := range fr.closures {
		if count[name] != 1 {
			delete(fr.closures, name) // reassigned: which literal a call runs is not known here
		}
	}
	for _, name := range order {
		if count[name] == 1 {
			if d, ok := fr.defs[name]; ok {
				if ue, isAddr := stripParens(d).(*ast.UnaryExpr); isAddr && ue.Op == token.AND {
					switch stripParens(ue.X).(type) {
					case *ast.Ident, *ast.SelectorExpr, *ast.IndexExpr:
						fr.ptrAlias[name] = ue.X
						delete(fr.defs, name)
						continue
					}
				}
			}
			if d, ok := fr.defs[name]; ok && !mutated[name] && !isAlloc(d) {
				_, isLit := stripParens(d).(*ast.BasicLit)
				if condUses[name] < 2 || isLit {
					continue // (a literal given a name has no identity to keep)
				}
			}
		}
		delete(fr.defs, name)
		*e.counter++
		fr.multi[name] = fmt.Sprintf("$%d", *e.counter)
	}
	return fr
}

// render renders an expression in the naming context of the frame.
func (e *nenum) render(fr *nframe, x ast.Expr) string { return e.renderD(fr, x, 0) }

func (e *nenum) renderD(fr *nframe, x ast.Expr, depth int) string {
	switch v := x.(type) {
	case nil:
		return ""
	case *ast.Ident:
		if s, ok := fr.subst[lname(v)]; ok {
			return s
		}
		if d, ok := fr.defs[lname(v)]; ok && depth < 6 {
			s := e.renderD(fr, d, depth+1)
			if _, isBin := d.(*ast.BinaryExpr); isBin {
				s = "(" + s + ")"
			}
			return s
		}
		if s, ok := fr.multi[lname(v)]; ok {
			return s
		}
		if op, isAlias := fr.ptrAlias[lname(v)]; isAlias && depth < 6 {
			return "&" + e.renderD(fr, op, depth+1)
		}
		if fr.lexical != nil {
			return e.renderD(fr.lexical, v, depth)
		}
		// a package-level constant reads as its literal (a format string or marker given a name)
		if lit, ok := e.c.consts[v.Name]; ok {
			return lit
		}
		return lname(v)
	case *ast.ParenExpr:
		return "(" + e.renderD(fr, v.X, depth) + ")"
	case *ast.SelectorExpr:
		if id, ok := v.X.(*ast.Ident); ok {
			if op, isAlias := fr.ptrAlias[lname(id)]; isAlias {
				return e.renderD(fr, op, depth+1) + "." + v.Sel.Name
			}
			// library constants that name a number the code otherwise writes out
			if id.Name == "utf8" && fr.subst[lname(id)] == "" && fr.multi[lname(id)] == "" && fr.defs[lname(id)] == nil {
				switch v.Sel.Name {
				case "RuneSelf":
					return "128"
				case "UTFMax":
					return "4"
				}
			}
		}
		if id, ok := v.X.(*ast.Ident); ok && id.Name == "unicode" && v.Sel.Name == "MaxASCII" && fr.subst[lname(id)] == "" && fr.multi[lname(id)] == "" && fr.defs[lname(id)] == nil {
			return "127"
		}
		return e.renderD(fr, v.X, depth) + "." + v.Sel.Name
	case *ast.IndexExpr:
		return e.renderD(fr, v.X, depth) + "[" + e.renderD(fr, v.Index, depth) + "]"
	case *ast.SliceExpr:
		return e.renderD(fr, v.X, depth) + "[" + e.renderD(fr, v.Low, depth) + ":" + e.renderD(fr, v.High, depth) + "]"
	case *ast.TypeAssertExpr:
		if v.Type == nil {
			return e.renderD(fr, v.X, depth) + ".(type)"
		}
		return e.renderD(fr, v.X, depth) + ".(" + nospaceLit(v.Type) + ")"
	case *ast.StarExpr:
		if id, ok := v.X.(*ast.Ident); ok && fr.ptr[lname(id)] {
			return e.renderD(fr, v.X, depth)
		}
		if id, ok := v.X.(*ast.Ident); ok {
			if op, isAlias := fr.ptrAlias[lname(id)]; isAlias {
				return e.renderD(fr, op, depth+1)
			}
		}
		return "*" + e.renderD(fr, v.X, depth)
	case *ast.UnaryExpr:
		return v.Op.String() + e.renderD(fr, v.X, depth)
	case *ast.BinaryExpr:
		return e.renderD(fr, v.X, depth) + v.Op.String() + e.renderD(fr, v.Y, depth)
	case *ast.KeyValueExpr:
		k := nospaceLit(v.Key)
		return k + ":" + e.renderD(fr, v.Value, depth)
	case *ast.CompositeLit:
		var es []string
		for _, el := range v.Elts {
			es = append(es, e.renderD(fr, el, depth))
		}
		t := ""
		if v.Type != nil {
			t = nospaceLit(v.Type)
		}
		return t + "{" + strings.Join(es, ",") + "}"
	case *ast.CallExpr:
		var as []string
		for _, a := range v.Args {
			as = append(as, e.renderD(fr, a, depth))
		}
		ell := ""
		if v.Ellipsis.IsValid() {
			ell = "..."
		}
		// a plain helper function that only gives a library expression a name (`func keys(m) []string { return
		// slices.Sorted(maps.Keys(m)) }`) reads as that expression
		if id, ok := v.Fun.(*ast.Ident); ok && depth < 4 && fr.closureNamed(lname(id)) == nil {
			if d := e.c.funcs[id.Name]; d != nil && d.Recv == nil && d.Body != nil && len(d.Body.List) == 1 && !e.c.noInline[id.Name] && !e.inlining[d] {
				if rs, ok := d.Body.List[0].(*ast.ReturnStmt); ok && len(rs.Results) == 1 && namesLibraryExpr(e.c, rs.Results[0]) {
					var params []string
					if d.Type.Params != nil {
						for _, f := range d.Type.Params.List {
							for _, nm := range f.Names {
								params = append(params, lname(nm))
							}
						}
					}
					if len(params) == len(as) && !v.Ellipsis.IsValid() {
						sub := map[string]string{}
						for i, pn := range params {
							sub[pn] = as[i]
						}
						nf := &nframe{fd: d, subst: sub, defs: map[string]ast.Expr{}, multi: map[string]string{}, closures: map[string]*nclosure{}, ptrAlias: map[string]ast.Expr{}, parent: fr, level: fr.level + 1}
						return e.renderD(nf, rs.Results[0], depth+1)
					}
				}
			}
		}
		// the number of runes of a string, in either spelling
		if id, ok := v.Fun.(*ast.Ident); ok && id.Name == "len" && len(as) == 1 && strings.HasPrefix(as[0], "[]rune(") && wholeCall(as[0]) {
			return "utf8.RuneCountInString(" + as[0][len("[]rune("):len(as[0])-1] + ")"
		}
		return e.renderD(fr, v.Fun, depth) + "(" + strings.Join(as, ",") + ell + ")"
	}
	return nospaceLit(x)
}

func (e *nenum) cond(fr *nframe, x ast.Expr, neg bool) string {
	return canonCondWith(e.expandBoolLocals(fr, x, 0), neg, func(l ast.Expr) string { return e.render(fr, l) })
}

// expandBoolLocals: a local defined once as a boolean combination (`invalid := a && b`) and used as an operand of a
// condition stands for that combination: `if invalid && !c` assumes a, b and !c like `if a && b && !c` does.
func (e *nenum) expandBoolLocals(fr *nframe, x ast.Expr, depth int) ast.Expr {
	if depth > 4 {
		return x
	}
	switch v := x.(type) {
	case *ast.ParenExpr:
		if in := e.expandBoolLocals(fr, v.X, depth); in != v.X {
			return &ast.ParenExpr{Lparen: v.Lparen, X: in, Rparen: v.Rparen}
		}
	case *ast.UnaryExpr:
		if v.Op == token.NOT {
			if in := e.expandBoolLocals(fr, v.X, depth); in != v.X {
				return &ast.UnaryExpr{OpPos: v.OpPos, Op: v.Op, X: in}
			}
		}
	case *ast.BinaryExpr:
		if v.Op == token.LAND || v.Op == token.LOR {
			l, r := e.expandBoolLocals(fr, v.X, depth), e.expandBoolLocals(fr, v.Y, depth)
			if l != v.X || r != v.Y {
				return &ast.BinaryExpr{X: l, OpPos: v.OpPos, Op: v.Op, Y: r}
			}
		}
	case *ast.CallExpr:
		// a test given a name (`isSingleChar(l)` for `utf8.RuneCountInString(l.Val) == 1`) reads as the test
		if d := e.helperOf(fr, v); d != nil && isPredicateHelper(d) {
			m := map[string]ast.Expr{}
			ok := true
			i := 0
			if d.Type.Params != nil {
				for _, f := range d.Type.Params.List {
					for _, nm := range f.Names {
						if i >= len(v.Args) || hasEffectCall(v.Args[i]) {
							ok = false
						} else {
							m[lname(nm)] = v.Args[i]
						}
						i++
					}
				}
			}
			if d.Recv != nil && len(d.Recv.List) == 1 && len(d.Recv.List[0].Names) == 1 {
				if sel, isSel := v.Fun.(*ast.SelectorExpr); isSel {
					m[d.Recv.List[0].Names[0].Name] = sel.X
				}
			}
			if ok {
				if body, okc := substIdents(d.Body.List[0].(*ast.ReturnStmt).Results[0], m); okc {
					return &ast.ParenExpr{X: e.expandBoolLocals(fr, body, depth+1)}
				}
			}
		}
	case *ast.Ident:
		if _, isSubst := fr.subst[lname(v)]; isSubst {
			return x
		}
		if d, ok := fr.defs[lname(v)]; ok {
			switch dv := stripParens(d).(type) {
			case *ast.BinaryExpr:
				switch dv.Op {
				case token.LAND, token.LOR:
					return &ast.ParenExpr{X: e.expandBoolLocals(fr, dv, depth+1)}
				}
			case *ast.UnaryExpr:
				if dv.Op == token.NOT {
					return &ast.ParenExpr{X: e.expandBoolLocals(fr, dv, depth+1)}
				}
			}
		}
	}
	return x
}

func (e *nenum) add(evs ...pev) {
	for i := range e.cur {
		if e.cur[i].brk == 0 && e.cur[i].ret == 0 && e.cur[i].skip == 0 {
			e.cur[i].p = append(append(bpath{}, e.cur[i].p...), evs...)
		}
	}
}

// addFacts records a condition as facts: the conjuncts of a conjunction separately.
func (e *nenum) addFacts(fact string, n ast.Node) {
	for _, cj := range splitTop(fact, "&&") {
		e.add(pev{"+", cj, n})
	}
}

// splitTop splits s at the top-level occurrences of sep (outside parentheses, brackets and quotes).
func splitTop(s, sep string) []string {
	var out []string
	depth := 0
	inStr := byte(0)
	last := 0
	for i := 0; i < len(s); i++ {
		ch := s[i]
		if inStr != 0 {
			if ch == '\\' && inStr != '`' {
				i++
			} else if ch == inStr {
				inStr = 0
			}
			continue
		}
		switch ch {
		case '"', '\'', '`':
			inStr = ch
		case '(', '[', '{':
			depth++
		case ')', ']', '}':
			depth--
		default:
			if depth == 0 && strings.HasPrefix(s[i:], sep) {
				out = append(out, s[last:i])
				last = i + len(sep)
				i += len(sep) - 1
			}
		}
	}
	return append(out, s[last:])
}

func (e *nenum) clone(in []nstate) []nstate {
	out := make([]nstate, len(in))
	for i, b := range in {
		out[i] = nstate{append(bpath{}, b.p...), b.brk, b.ret, b.skip}
	}
	return out
}

func (e *nenum) finish() {
	var live []nstate
	for _, c := range e.cur {
		if c.brk == 0 && c.ret == 0 && c.skip == 0 {
			e.finished = append(e.finished, c.p)
		} else {
			live = append(live, c)
		}
	}
	e.cur = live
}

// calls emits the call events of an expression in evaluation order; calls of inlinable helpers are NOT expanded here
// (only statement-level positions are), they appear as ordinary call events.
func (e *nenum) calls(fr *nframe, n ast.Node) {
	if n == nil {
		return
	}
	var walk func(n ast.Node, kind string)
	walk = func(n ast.Node, kind string) {
		ast.Inspect(n, func(m ast.Node) bool {
			switch x := m.(type) {
			case *ast.FuncLit:
				return false
			case *ast.BinaryExpr:
				if x.Op == token.LAND || x.Op == token.LOR {
					// the right operand is evaluated only if the left one does not decide: its calls are conditional
					walk(x.X, kind)
					walk(x.Y, "ccall")
					return false
				}
			case *ast.CallExpr:
				for _, a := range x.Args {
					walk(a, kind)
				}
				walk(x.Fun, kind)
				e.add(pev{kind, e.render(fr, x), x})
				return false
			}
			return true
		})
	}
	walk(n, "call")
}

// helperOf resolves a call to an inlinable helper of the package.
func (e *nenum) helperOf(fr *nframe, ce *ast.CallExpr) *ast.FuncDecl {
	var d *ast.FuncDecl
	isClosure := false
	switch f := ce.Fun.(type) {
	case *ast.Ident:
		if cl := fr.closureNamed(lname(f)); cl != nil {
			d, isClosure = cl.decl, true
			if e.closureLex == nil {
				e.closureLex = map[*ast.FuncDecl]*nframe{}
			}
			e.closureLex[d] = cl.lex
		} else {
			d = e.c.funcs[f.Name]
		}
	case *ast.SelectorExpr:
		// a modelled library function (slices.ContainsFunc, …): expanded from its model like a helper
		if id, ok := f.X.(*ast.Ident); ok {
			if m := e.c.funcs[id.Name+"."+f.Sel.Name]; m != nil && libModels[id.Name+"."+f.Sel.Name] && fr.closureNamed(id.Name) == nil && fr.multi[id.Name] == "" && fr.defs[id.Name] == nil {
				if _, isSubst := fr.subst[lname(id)]; !isSubst {
					d = m
					break
				}
			}
		}
		// method of the package called on the current receiver (or a value whose type is not resolved here)
		if cur := fr.fd; cur.Recv != nil && len(cur.Recv.List) == 1 && len(cur.Recv.List[0].Names) == 1 {
			if id, ok := f.X.(*ast.Ident); ok && id.Name == cur.Recv.List[0].Names[0].Name {
				t := strings.TrimPrefix(nospaceLit(cur.Recv.List[0].Type), "*")
				d = e.c.funcs[t+"."+f.Sel.Name]
			}
		}
		if d == nil {
			if id, ok := f.X.(*ast.Ident); ok {
				if _, isSubst := fr.subst[lname(id)]; isSubst || fr.multi[lname(id)] != "" || fr.defs[lname(id)] != nil {
					d = e.c.funcs["."+f.Sel.Name]
				}
			}
		}
		if d == nil {
			// a method called on a parameter of the function being walked (chr.contains(r) in parseCharClassMatcher(chr)):
			// resolved by its name when the package has exactly one method of that name
			if id, ok := f.X.(*ast.Ident); ok && fr.fd != nil && fr.fd.Type.Params != nil {
				for _, pf := range fr.fd.Type.Params.List {
					for _, nm := range pf.Names {
						if nm.Name == id.Name {
							d = e.c.funcs["."+f.Sel.Name]
						}
					}
				}
			}
		}
		if d == nil {
			// a method called on a field or an element (p.pt.atEOF(), p.rstack[i].label()): resolved by its name when
			// the package has exactly one method of that name
			switch stripParens(f.X).(type) {
			case *ast.SelectorExpr, *ast.IndexExpr:
				// … and only a test or accessor given a name: a body that is a single return
				if m := e.c.funcs["."+f.Sel.Name]; m != nil && m.Body != nil && len(m.Body.List) == 1 {
					if _, isRet := m.Body.List[0].(*ast.ReturnStmt); isRet {
						d = m
					}
				}
			}
		}
	}
	if d == nil || d.Body == nil || e.inlining[d] || fr.level >= 4 || (fr.level >= 3 && !isClosure) || e.c.noInline[d.Name.Name] {
		return nil
	}
	// small, and free of constructs the substitution cannot carry
	nst := 0
	okBody := true
	ast.Inspect(d.Body, func(n ast.Node) bool {
		switch x := n.(type) {
		case ast.Stmt:
			nst++
		case *ast.FuncLit:
			okBody = false
		case *ast.CallExpr:
			if callSel(x) == d.Name.Name {
				okBody = false // recursive: a traversal, not a helper
			}
		}
		if ds, ok := n.(*ast.DeferStmt); ok && ds != nil {
			okBody = false
		}
		return true
	})
	if !okBody {
		return nil
	}
	if nst > 30 && e.callSitesOf(d) != 1 {
		// (a function with a single call site in the package is a phase of its caller: expanding it gives back the
		// function the caller was before it was split, whatever its size)
		return nil
	}
	if d.Type.Params != nil {
		np := 0
		for _, f := range d.Type.Params.List {
			if _, variadic := f.Type.(*ast.Ellipsis); variadic {
				return nil
			}
			np += len(f.Names)
		}
		if np != len(ce.Args) {
			return nil
		}
	} else if len(ce.Args) != 0 {
		return nil
	}
	return d
}

// closureNamed resolves a name to a function literal through the frame and the frames it is lexically nested in.
func (fr *nframe) closureNamed(name string) *nclosure {
	for f := fr; f != nil; f = f.lexical {
		if cl := f.closures[name]; cl != nil {
			return cl
		}
		if _, shadow := f.subst[name]; shadow {
			return nil
		}
		if _, shadow := f.defs[name]; shadow {
			return nil
		}
	}
	return nil
}

func (e *nenum) litDecl(name string, lit *ast.FuncLit) *ast.FuncDecl {
	if e.litDecls == nil {
		e.litDecls = map[*ast.FuncLit]*ast.FuncDecl{}
	}
	if d := e.litDecls[lit]; d != nil {
		return d
	}
	d := &ast.FuncDecl{Name: ast.NewIdent(name), Type: lit.Type, Body: lit.Body}
	e.litDecls[lit] = d
	return d
}

// inline expands a helper call: results go to retTo (nil: dropped) or, for tail, become the caller's return.
func (e *nenum) inline(fr *nframe, ce *ast.CallExpr, d *ast.FuncDecl, retTo []ast.Expr, tok token.Token, tail bool) {
	subst := map[string]string{}
	ptr := map[string]bool{}
	i := 0
	if d.Type.Params != nil {
		for _, f := range d.Type.Params.List {
			for _, nm := range f.Names {
				a := ce.Args[i]
				e.calls(fr, a)
				s := e.render(fr, a)
				if _, isBin := a.(*ast.BinaryExpr); isBin {
					s = "(" + s + ")"
				}
				// a pointer to a variable passed for a pointer parameter: the helper works on the variable itself
				// (indexing and field selection dereference implicitly)
				if ue, ok := a.(*ast.UnaryExpr); ok && ue.Op == token.AND {
					if _, isPtr := f.Type.(*ast.StarExpr); isPtr {
						s = e.render(fr, ue.X)
						ptr[lname(nm)] = true
					}
				}
				subst[lname(nm)] = s
				i++
			}
		}
	}
	if d.Recv != nil && len(d.Recv.List) == 1 && len(d.Recv.List[0].Names) == 1 {
		if sel, ok := ce.Fun.(*ast.SelectorExpr); ok {
			subst[d.Recv.List[0].Names[0].Name] = e.render(fr, sel.X)
		}
	}
	nf := e.newFrameLex(d, fr, subst, e.closureLex[d])
	// a function-typed parameter bound to a literal (or to a local that names one) is expanded where the helper calls it
	if d.Type.Params != nil {
		k := 0
		for _, f := range d.Type.Params.List {
			for _, nm := range f.Names {
				if k < len(ce.Args) {
					switch a := stripParens(ce.Args[k]).(type) {
					case *ast.FuncLit:
						nf.closures[lname(nm)] = &nclosure{decl: e.litDecl(lname(nm), a), lex: fr}
					case *ast.Ident:
						if cl := fr.closureNamed(a.Name); cl != nil {
							nf.closures[lname(nm)] = cl
						}
					}
				}
				k++
			}
		}
	}
	nf.ptr = ptr
	nf.retTo, nf.retTok, nf.tail = retTo, tok, tail
	// a parameter the helper assigns to is a local of the helper that starts as the argument
	if d.Type.Params != nil {
		for _, f := range d.Type.Params.List {
			for _, nm := range f.Names {
				if num, assigned := nf.multi[lname(nm)]; assigned && !ptr[lname(nm)] {
					if a, ok := nf.subst[lname(nm)]; ok {
						delete(nf.subst, lname(nm))
						e.add(pev{"set", num + "=" + a, ce})
					}
				}
			}
		}
	}
	e.zeroNamedResults(nf, d)
	// loop variables of the caller stay visible through the substituted argument texts only
	e.inlining[d] = true
	if e.c.expanded != nil {
		e.c.expanded[d] = true
	}
	saveSw, saveSwD := e.swLevel, e.swDepth
	e.swLevel, e.swDepth = 0, nil
	e.stmts(nf, d.Body.List)
	e.swLevel, e.swDepth = saveSw, saveSwD
	delete(e.inlining, d)
	for k := range e.cur {
		if e.cur[k].ret == nf.level {
			e.cur[k].ret = 0
		}
	}
}

// hoistArgs evaluates, ahead of a call in statement position, the arguments that are calls of package helpers with
// a body of their own (more than a single return): the helper is expanded with its result in a fresh local, and the
// call is rendered with that local. `f(a, listText(xs))` and `t := listText(xs); f(a, t)` read the same.
func (e *nenum) hoistArgs(fr *nframe, ce *ast.CallExpr) *ast.CallExpr {
	var out *ast.CallExpr
	for i, a := range ce.Args {
		ac, ok := stripParens(a).(*ast.CallExpr)
		if !ok {
			// a helper call inside a concatenation (`"rule " + label(r)`): the operands are looked at in turn
			if be, isBin := stripParens(a).(*ast.BinaryExpr); isBin && be.Op == token.ADD {
				if nb := e.hoistOperands(fr, be); nb != be {
					if out == nil {
						cp := *ce
						cp.Args = append([]ast.Expr{}, ce.Args...)
						out = &cp
					}
					out.Args[i] = nb
				}
			}
			continue
		}
		d := e.helperOf(fr, ac)
		if d == nil || d.Type.Results == nil || len(d.Type.Results.List) != 1 || len(d.Type.Results.List[0].Names) > 1 || (len(d.Body.List) < 2 && e.closureLex[d] == nil) {
			continue
		}
		if out == nil {
			cp := *ce
			cp.Args = append([]ast.Expr{}, ce.Args...)
			out = &cp
		}
		*e.counter++
		name := fmt.Sprintf("hoisted%d", *e.counter)
		id := ast.NewIdent(name)
		fr.multi[name] = fmt.Sprintf("$%d", *e.counter)
		e.inline(fr, e.hoistArgs(fr, ac), d, []ast.Expr{id}, token.ASSIGN, false)
		out.Args[i] = id
	}
	if out == nil {
		return ce
	}
	return out
}

// hoistOperands: the operands of a + chain that are calls of package helpers with a body of their own are computed
// first, left to right.
func (e *nenum) hoistOperands(fr *nframe, be *ast.BinaryExpr) *ast.BinaryExpr {
	side := func(x ast.Expr) ast.Expr {
		switch v := stripParens(x).(type) {
		case *ast.BinaryExpr:
			if v.Op == token.ADD {
				if nb := e.hoistOperands(fr, v); nb != v {
					return nb
				}
			}
		case *ast.CallExpr:
			d := e.helperOf(fr, v)
			if d == nil || d.Type.Results == nil || len(d.Type.Results.List) != 1 || len(d.Type.Results.List[0].Names) > 1 || (len(d.Body.List) < 2 && e.closureLex[d] == nil) {
				return x
			}
			*e.counter++
			name := fmt.Sprintf("hoisted%d", *e.counter)
			id := ast.NewIdent(name)
			fr.multi[name] = fmt.Sprintf("$%d", *e.counter)
			e.inline(fr, e.hoistArgs(fr, v), d, []ast.Expr{id}, token.ASSIGN, false)
			return id
		}
		return x
	}
	l := side(be.X)
	r := side(be.Y)
	if l == be.X && r == be.Y {
		return be
	}
	cp := *be
	cp.X, cp.Y = l, r
	return &cp
}

// hoistLits: a helper with a body of its own that is called for the value of a field in a composite literal on the
// right-hand side of an assignment is computed first (`pe := &T{prefix: p.prefixOf(pos)}` reads like
// `t := p.prefixOf(pos); pe := &T{prefix: t}`).
func (e *nenum) hoistLits(fr *nframe, as *ast.AssignStmt) *ast.AssignStmt {
	var out *ast.AssignStmt
	for i, rh := range as.Rhs {
		inner := stripParens(rh)
		addr := false
		if ue, ok := inner.(*ast.UnaryExpr); ok && ue.Op == token.AND {
			inner, addr = stripParens(ue.X), true
		}
		cl, ok := inner.(*ast.CompositeLit)
		if !ok {
			continue
		}
		var ncl *ast.CompositeLit
		for k, el := range cl.Elts {
			val := el
			kv, isKV := el.(*ast.KeyValueExpr)
			if isKV {
				val = kv.Value
			}
			ac, ok := stripParens(val).(*ast.CallExpr)
			if !ok {
				continue
			}
			d := e.helperOf(fr, ac)
			if d == nil || d.Type.Results == nil || len(d.Type.Results.List) != 1 || len(d.Type.Results.List[0].Names) > 1 || (len(d.Body.List) < 2 && e.closureLex[d] == nil) {
				continue
			}
			if ncl == nil {
				cp := *cl
				cp.Elts = append([]ast.Expr{}, cl.Elts...)
				ncl = &cp
			}
			*e.counter++
			name := fmt.Sprintf("hoisted%d", *e.counter)
			id := ast.NewIdent(name)
			fr.multi[name] = fmt.Sprintf("$%d", *e.counter)
			e.inline(fr, e.hoistArgs(fr, ac), d, []ast.Expr{id}, token.ASSIGN, false)
			if isKV {
				nkv := *kv
				nkv.Value = id
				ncl.Elts[k] = &nkv
			} else {
				ncl.Elts[k] = id
			}
		}
		if ncl == nil {
			continue
		}
		if out == nil {
			cp := *as
			cp.Rhs = append([]ast.Expr{}, as.Rhs...)
			out = &cp
		}
		if addr {
			out.Rhs[i] = &ast.UnaryExpr{Op: token.AND, X: ncl}
		} else {
			out.Rhs[i] = ncl
		}
	}
	if out == nil {
		return as
	}
	return out
}

// hoistCond: a condition that is (the negation of) a call of a package helper with a body of its own is decided by
// expanding the helper first: `if changed(x) {` reads like `c := changed(x); if c {`.
func (e *nenum) hoistCond(fr *nframe, cond ast.Expr) ast.Expr {
	switch c := cond.(type) {
	case *ast.ParenExpr:
		if h := e.hoistCond(fr, c.X); h != c.X {
			return h
		}
	case *ast.UnaryExpr:
		if c.Op == token.NOT {
			if h := e.hoistCond(fr, c.X); h != c.X {
				return &ast.UnaryExpr{Op: token.NOT, X: h, OpPos: c.OpPos}
			}
		}
	case *ast.BinaryExpr:
		// helper(x) == y, helper(x) != y (and mirrored): the helper's result is compared after it was computed
		if c.Op == token.EQL || c.Op == token.NEQ {
			if h := e.hoistCond(fr, c.X); h != c.X {
				if _, isID := h.(*ast.Ident); isID {
					cp := *c
					cp.X = h
					return &cp
				}
			}
			if h := e.hoistCond(fr, c.Y); h != c.Y {
				if _, isID := h.(*ast.Ident); isID {
					cp := *c
					cp.Y = h
					return &cp
				}
			}
		}
	case *ast.CallExpr:
		d := e.helperOf(fr, c)
		if d == nil || d.Type.Results == nil || len(d.Type.Results.List) != 1 || len(d.Type.Results.List[0].Names) > 1 || (len(d.Body.List) < 2 && e.closureLex[d] == nil && !isPredicateHelper(d)) {
			return cond
		}
		*e.counter++
		name := fmt.Sprintf("hoisted%d", *e.counter)
		id := ast.NewIdent(name)
		fr.multi[name] = fmt.Sprintf("$%d", *e.counter)
		e.inline(fr, e.hoistArgs(fr, c), d, []ast.Expr{id}, token.ASSIGN, false)
		return id
	}
	return cond
}

// substIdents copies an expression with the identifiers in m replaced by the given expressions (parenthesised when
// they are not atoms); ok=false when the expression contains a construct that is not copied.
func substIdents(x ast.Expr, m map[string]ast.Expr) (ast.Expr, bool) {
	switch v := x.(type) {
	case nil:
		return nil, true
	case *ast.Ident:
		if r, ok := m[v.Name]; ok {
			switch r.(type) {
			case *ast.Ident, *ast.SelectorExpr, *ast.IndexExpr, *ast.BasicLit, *ast.CallExpr, *ast.ParenExpr:
				return r, true
			}
			return &ast.ParenExpr{X: r}, true
		}
		return v, true
	case *ast.BasicLit:
		return v, true
	case *ast.ParenExpr:
		in, ok := substIdents(v.X, m)
		return &ast.ParenExpr{Lparen: v.Lparen, X: in, Rparen: v.Rparen}, ok
	case *ast.SelectorExpr:
		in, ok := substIdents(v.X, m)
		return &ast.SelectorExpr{X: in, Sel: v.Sel}, ok
	case *ast.IndexExpr:
		a, ok1 := substIdents(v.X, m)
		b, ok2 := substIdents(v.Index, m)
		return &ast.IndexExpr{X: a, Lbrack: v.Lbrack, Index: b, Rbrack: v.Rbrack}, ok1 && ok2
	case *ast.SliceExpr:
		a, ok1 := substIdents(v.X, m)
		lo, ok2 := substIdents(v.Low, m)
		hi, ok3 := substIdents(v.High, m)
		if v.Max != nil {
			return nil, false
		}
		return &ast.SliceExpr{X: a, Lbrack: v.Lbrack, Low: lo, High: hi, Rbrack: v.Rbrack}, ok1 && ok2 && ok3
	case *ast.StarExpr:
		in, ok := substIdents(v.X, m)
		return &ast.StarExpr{Star: v.Star, X: in}, ok
	case *ast.UnaryExpr:
		in, ok := substIdents(v.X, m)
		return &ast.UnaryExpr{OpPos: v.OpPos, Op: v.Op, X: in}, ok
	case *ast.BinaryExpr:
		a, ok1 := substIdents(v.X, m)
		b, ok2 := substIdents(v.Y, m)
		return &ast.BinaryExpr{X: a, OpPos: v.OpPos, Op: v.Op, Y: b}, ok1 && ok2
	case *ast.TypeAssertExpr:
		in, ok := substIdents(v.X, m)
		return &ast.TypeAssertExpr{X: in, Lparen: v.Lparen, Type: v.Type, Rparen: v.Rparen}, ok
	case *ast.CallExpr:
		fun := v.Fun
		if sel, isSel := v.Fun.(*ast.SelectorExpr); isSel {
			in, ok := substIdents(sel.X, m)
			if !ok {
				return nil, false
			}
			fun = &ast.SelectorExpr{X: in, Sel: sel.Sel}
		} else if id, isID := v.Fun.(*ast.Ident); isID {
			if _, shadowed := m[lname(id)]; shadowed {
				return nil, false
			}
		} else if _, isArr := v.Fun.(*ast.ArrayType); !isArr {
			return nil, false
		}
		args := make([]ast.Expr, len(v.Args))
		for i, a := range v.Args {
			in, ok := substIdents(a, m)
			if !ok {
				return nil, false
			}
			args[i] = in
		}
		return &ast.CallExpr{Fun: fun, Lparen: v.Lparen, Args: args, Ellipsis: v.Ellipsis, Rparen: v.Rparen}, true
	}
	return nil, false
}

// isPredicateHelper: the helper is a single `return <comparison or boolean combination>`: a test given a name
// (`isSingleChar(s)` for `utf8.RuneCountInString(s) == 1`); in a condition it reads as the test itself.
func isPredicateHelper(d *ast.FuncDecl) bool {
	if d.Body == nil || len(d.Body.List) != 1 {
		return false
	}
	rs, ok := d.Body.List[0].(*ast.ReturnStmt)
	if !ok || len(rs.Results) != 1 {
		return false
	}
	switch x := stripParens(rs.Results[0]).(type) {
	case *ast.BinaryExpr:
		switch x.Op {
		case token.EQL, token.NEQ, token.LSS, token.LEQ, token.GTR, token.GEQ, token.LAND, token.LOR:
			return true
		}
	case *ast.UnaryExpr:
		return x.Op == token.NOT
	}
	return false
}

// cutLoopAsRange: `for more := true; more; { line, rest, more = strings.Cut(rest, sep); … }` visits the pieces of rest
// between occurrences of sep, one per iteration, like `for _, line := range strings.Split(rest, sep) { … }` (Cut
// reports found=false exactly on the last piece). The loop is read as that range loop.
func cutLoopAsRange(x *ast.ForStmt) *ast.RangeStmt {
	as, ok := x.Init.(*ast.AssignStmt)
	if !ok || as.Tok != token.DEFINE || len(as.Lhs) != 1 || len(as.Rhs) != 1 || nospaceLit(as.Rhs[0]) != "true" || x.Post != nil {
		return nil
	}
	more, ok := as.Lhs[0].(*ast.Ident)
	if !ok || x.Cond == nil || nospaceLit(x.Cond) != more.Name {
		return nil
	}
	body := x.Body.List
	// an optional `var line string` first
	if len(body) > 0 {
		if ds, ok := body[0].(*ast.DeclStmt); ok {
			if gd, ok := ds.Decl.(*ast.GenDecl); ok && gd.Tok == token.VAR {
				body = body[1:]
			}
		}
	}
	if len(body) == 0 {
		return nil
	}
	cut, ok := body[0].(*ast.AssignStmt)
	if !ok || len(cut.Lhs) != 3 || len(cut.Rhs) != 1 {
		return nil
	}
	ce, ok := cut.Rhs[0].(*ast.CallExpr)
	if !ok || callName(ce) != "strings.Cut" || len(ce.Args) != 2 {
		return nil
	}
	line, ok1 := cut.Lhs[0].(*ast.Ident)
	rest, ok2 := cut.Lhs[1].(*ast.Ident)
	if !ok1 || !ok2 || nospaceLit(cut.Lhs[2]) != more.Name || nospaceLit(ce.Args[0]) != rest.Name {
		return nil
	}
	// the rest of the body may not touch the loop state
	for _, st := range body[1:] {
		touched := false
		ast.Inspect(st, func(n ast.Node) bool {
			if id, ok := n.(*ast.Ident); ok && (id.Name == rest.Name || id.Name == more.Name) {
				touched = true
			}
			return true
		})
		if touched {
			return nil
		}
	}
	split := &ast.CallExpr{Fun: &ast.SelectorExpr{X: ast.NewIdent("strings"), Sel: ast.NewIdent("Split")}, Args: []ast.Expr{rest, ce.Args[1]}}
	return &ast.RangeStmt{For: x.For, Key: ast.NewIdent("_"), Value: line, Tok: token.DEFINE, X: split, Body: &ast.BlockStmt{Lbrace: x.Body.Lbrace, List: body[1:], Rbrace: x.Body.Rbrace}}
}

// hasEffectCall: the expression contains a call that is more than a built-in or a conversion.
func hasEffectCall(x ast.Expr) bool {
	found := false
	ast.Inspect(x, func(n ast.Node) bool {
		if _, ok := n.(*ast.FuncLit); ok {
			return false
		}
		if ce, ok := n.(*ast.CallExpr); ok {
			switch callName(ce) {
			case "len", "cap", "string", "int", "rune", "byte", "min", "max", "int64", "uint", "float64", "[]rune", "[]byte":
			default:
				found = true
			}
		}
		return true
	})
	return found
}

// shortCircuitAssign: `x = a && f()` stores f() only when a holds and false otherwise; it is rewritten to the `if`
// it abbreviates so that both spellings enumerate the same paths (the store must target a field, an element or a
// local with several definitions - a local defined once is a name for its text).
func (e *nenum) shortCircuitAssign(fr *nframe, x *ast.AssignStmt) ast.Stmt {
	if len(x.Lhs) != 1 || len(x.Rhs) != 1 || (x.Tok != token.ASSIGN && x.Tok != token.DEFINE) {
		return nil
	}
	be, ok := stripParens(x.Rhs[0]).(*ast.BinaryExpr)
	if !ok || (be.Op != token.LAND && be.Op != token.LOR) || !hasEffectCall(be.Y) {
		return nil
	}
	if id, ok := x.Lhs[0].(*ast.Ident); ok {
		if _, single := fr.defs[lname(id)]; single || lname(id) == "_" {
			return nil
		}
	}
	lit := "false"
	if be.Op == token.LOR {
		lit = "true"
	}
	tok := token.ASSIGN
	a1 := &ast.AssignStmt{Lhs: x.Lhs, TokPos: x.TokPos, Tok: tok, Rhs: []ast.Expr{be.Y}}
	a2 := &ast.AssignStmt{Lhs: x.Lhs, TokPos: x.TokPos, Tok: tok, Rhs: []ast.Expr{ast.NewIdent(lit)}}
	if be.Op == token.LOR {
		a1, a2 = a2, a1
	}
	return &ast.IfStmt{If: x.Pos(), Cond: be.X, Body: &ast.BlockStmt{List: []ast.Stmt{a1}}, Else: &ast.BlockStmt{List: []ast.Stmt{a2}}}
}

func (e *nenum) stmts(fr *nframe, list []ast.Stmt) {
	for _, s := range list {
		e.stmt(fr, s)
	}
}

// rangeOperand: `for i := range len(xs)` visits the indices of xs like `for i := range xs`.
func (e *nenum) rangeOperand(x *ast.RangeStmt) ast.Expr {
	if x.Value == nil {
		if ce, ok := stripParens(x.X).(*ast.CallExpr); ok && callName(ce) == "len" && len(ce.Args) == 1 {
			return ce.Args[0]
		}
	}
	return x.X
}

func (e *nenum) bindRange(fr *nframe, x *ast.RangeStmt) (initSet string) {
	tag := fmt.Sprintf("#%d", e.depth)
	xs := e.render(fr, e.rangeOperand(x))
	if id, ok := x.Key.(*ast.Ident); ok && lname(id) != "_" {
		fr.subst[lname(id)] = tag
	}
	if id, ok := x.Value.(*ast.Ident); ok && lname(id) != "_" {
		assigned := false
		ast.Inspect(x.Body, func(n ast.Node) bool {
			if as, ok := n.(*ast.AssignStmt); ok {
				for _, l := range as.Lhs {
					if li, ok := l.(*ast.Ident); ok && lname(li) == lname(id) && as.Tok != token.DEFINE {
						assigned = true
					}
				}
			}
			return true
		})
		if assigned {
			// the loop variable is a copy that the body changes: an ordinary local starting as the element
			delete(fr.subst, lname(id))
			if _, ok := fr.multi[lname(id)]; !ok {
				*e.counter++
				fr.multi[lname(id)] = fmt.Sprintf("$%d", *e.counter)
			}
			return fr.multi[lname(id)] + "=" + xs + "[" + tag + "]"
		}
		fr.subst[lname(id)] = xs + "[" + tag + "]"
	}
	return ""
}

// bindFor recognises `for i := 0; i < len(X); i++` and returns X's rendering ("" if the loop has another form).
func (e *nenum) bindFor(fr *nframe, x *ast.ForStmt) string {
	tag := fmt.Sprintf("#%d", e.depth)
	as, ok := x.Init.(*ast.AssignStmt)
	if !ok || len(as.Lhs) != 1 || len(as.Rhs) != 1 {
		return ""
	}
	id, ok := as.Lhs[0].(*ast.Ident)
	if !ok {
		return ""
	}
	fr.subst[lname(id)] = tag
	be, ok := x.Cond.(*ast.BinaryExpr)
	inc, isInc := x.Post.(*ast.IncDecStmt)
	if nospaceLit(as.Rhs[0]) == "0" && ok && be.Op == token.LSS && nospaceLit(be.X) == lname(id) && isInc && inc.Tok == token.INC && nospaceLit(inc.X) == lname(id) {
		if ce, ok := be.Y.(*ast.CallExpr); ok && callName(ce) == "len" && len(ce.Args) == 1 {
			return e.render(fr, ce.Args[0])
		}
	}
	return ""
}

func (e *nenum) stmt(fr *nframe, s ast.Stmt) {
	if e.overflow {
		return
	}
	switch x := s.(type) {
	case nil:
	case *ast.BlockStmt:
		e.stmts(fr, x.List)
	case *ast.LabeledStmt:
		switch x.Stmt.(type) {
		case *ast.ForStmt, *ast.RangeStmt:
			if e.labels == nil {
				e.labels = map[string]int{}
			}
			e.labels[x.Label.Name] = e.depth + 1
		}
		e.stmt(fr, x.Stmt)
	case *ast.EmptyStmt:
	case *ast.ExprStmt:
		if ce, ok := x.X.(*ast.CallExpr); ok {
			if d := e.helperOf(fr, ce); d != nil {
				e.inline(fr, e.hoistArgs(fr, ce), d, nil, token.ILLEGAL, false)
				return
			}
			e.calls(fr, e.hoistArgs(fr, ce))
			return
		}
		e.calls(fr, x.X)
	case *ast.AssignStmt:
		if syn := e.shortCircuitAssign(fr, x); syn != nil {
			e.stmt(fr, syn)
			return
		}
		x = e.hoistLits(fr, x)
		if len(x.Rhs) == 1 {
			if ce, ok := x.Rhs[0].(*ast.CallExpr); ok {
				if d := e.helperOf(fr, ce); d != nil && d.Type.Results != nil {
					// only when the targets are not single-definition locals that other code inlines
					inlinable := true
					for _, l := range x.Lhs {
						if id, ok := l.(*ast.Ident); ok {
							if _, single := fr.defs[lname(id)]; single {
								if _, singleReturn := d.Body.List[0].(*ast.ReturnStmt); len(d.Body.List) > 1 || !singleReturn {
									// a helper with a body of its own (several statements, or one statement that is not a
									// plain return - a switch whose clauses return): its result is a value computed here, not a text to repeat
									delete(fr.defs, lname(id))
									*e.counter++
									fr.multi[lname(id)] = fmt.Sprintf("$%d", *e.counter)
								} else {
									inlinable = false
								}
							}
						}
					}
					if inlinable {
						e.inline(fr, e.hoistArgs(fr, ce), d, x.Lhs, x.Tok, false)
						return
					}
				}
			}
		}
		// a helper call with a body of its own used as a subscript on the left-hand side is computed first
		// (`table[twin(r)] = true` reads like `t := twin(r); table[t] = true`)
		{
			var lhs []ast.Expr
			for i, l := range x.Lhs {
				ix, ok := stripParens(l).(*ast.IndexExpr)
				if !ok {
					continue
				}
				ic, ok := stripParens(ix.Index).(*ast.CallExpr)
				if !ok {
					continue
				}
				d := e.helperOf(fr, ic)
				if d == nil || d.Type.Results == nil || len(d.Type.Results.List) != 1 || len(d.Type.Results.List[0].Names) > 1 || (len(d.Body.List) < 2 && e.closureLex[d] == nil) {
					continue
				}
				*e.counter++
				name := fmt.Sprintf("hoisted%d", *e.counter)
				id := ast.NewIdent(name)
				fr.multi[name] = fmt.Sprintf("$%d", *e.counter)
				e.inline(fr, e.hoistArgs(fr, ic), d, []ast.Expr{id}, token.ASSIGN, false)
				if lhs == nil {
					lhs = append([]ast.Expr{}, x.Lhs...)
				}
				nix := *ix
				nix.Index = id
				lhs[i] = &nix
			}
			if lhs != nil {
				cp := *x
				cp.Lhs = lhs
				x = &cp
			}
		}
		// helper calls with a body of their own among the arguments of a call on the right-hand side are computed first
		// (`xs = append(xs, label(w))` reads like `t := label(w); xs = append(xs, t)`)
		{
			var rhs []ast.Expr
			for i, r := range x.Rhs {
				if ce, ok := stripParens(r).(*ast.CallExpr); ok {
					if h := e.hoistArgs(fr, ce); h != ce {
						if rhs == nil {
							rhs = append([]ast.Expr{}, x.Rhs...)
						}
						rhs[i] = h
					}
				}
			}
			if rhs != nil {
				cp := *x
				cp.Rhs = rhs
				x = &cp
			}
		}
		for _, r := range x.Rhs {
			e.calls(fr, r)
		}
		for i, l := range x.Lhs {
			if id, ok := l.(*ast.Ident); ok {
				if lname(id) == "_" {
					continue
				}
				if _, single := fr.defs[lname(id)]; single {
					continue // inlined at its uses
				}
			} else {
				e.callsInLhs(fr, l)
			}
			rhs := ""
			switch {
			case len(x.Rhs) == len(x.Lhs):
				rhs = e.render(fr, x.Rhs[i])
			case len(x.Rhs) == 1:
				// multi-value right-hand side: a comma-ok form yields the value and ok(<expr>); a call res<i>(<call>)
				base := e.render(fr, x.Rhs[0])
				switch stripParens(x.Rhs[0]).(type) {
				case *ast.IndexExpr, *ast.TypeAssertExpr, *ast.UnaryExpr:
					if i == 0 {
						rhs = base
					} else {
						rhs = "ok(" + base + ")"
					}
				default:
					rhs = fmt.Sprintf("res%d(%s)", i, base)
				}
			}
			op := "="
			if x.Tok != token.ASSIGN && x.Tok != token.DEFINE {
				op = x.Tok.String()
			}
			e.add(pev{"set", e.render(fr, l) + op + rhs, x})
		}
	case *ast.IncDecStmt:
		e.add(pev{"set", e.render(fr, x.X) + x.Tok.String(), x})
	case *ast.DeclStmt:
		if gd, ok := x.Decl.(*ast.GenDecl); ok {
			for _, sp := range gd.Specs {
				vs, ok := sp.(*ast.ValueSpec)
				if !ok {
					continue
				}
				for _, v := range vs.Values {
					e.calls(fr, v)
				}
				for i, nm := range vs.Names {
					if _, single := fr.defs[lname(nm)]; single || lname(nm) == "_" {
						continue
					}
					rhs := "zero"
					if i < len(vs.Values) {
						rhs = e.render(fr, vs.Values[i])
					}
					e.add(pev{"set", e.render(fr, nm) + "=" + rhs, x})
				}
			}
		}
	case *ast.ReturnStmt:
		if len(x.Results) == 0 && fr.fd.Type.Results != nil {
			// a bare return of named results returns their current values
			var named []ast.Expr
			for _, f := range fr.fd.Type.Results.List {
				for _, nm := range f.Names {
					named = append(named, ast.NewIdent(lname(nm)))
				}
			}
			if len(named) > 0 {
				cp := *x
				cp.Results = named
				x = &cp
			}
		}
		if len(x.Results) == 1 {
			if be, ok := stripParens(x.Results[0]).(*ast.BinaryExpr); ok && (be.Op == token.LAND || be.Op == token.LOR) && hasEffectCall(be.Y) {
				// `return a && f()` is `if a { return f() }; return false` (and dually for ||): the call is conditional
				lit := "false"
				if be.Op == token.LOR {
					lit = "true"
				}
				cond := be.X
				r1 := &ast.ReturnStmt{Return: x.Return, Results: []ast.Expr{be.Y}}
				r2 := &ast.ReturnStmt{Return: x.Return, Results: []ast.Expr{ast.NewIdent(lit)}}
				if be.Op == token.LOR {
					r1, r2 = r2, r1
				}
				e.stmt(fr, &ast.IfStmt{If: x.Return, Cond: cond, Body: &ast.BlockStmt{List: []ast.Stmt{r1}}, Else: &ast.BlockStmt{List: []ast.Stmt{r2}}})
				return
			}
			if ce, ok := x.Results[0].(*ast.CallExpr); ok {
				if d := e.helperOf(fr, ce); d != nil && d.Type.Results != nil {
					if fr.parent == nil {
						e.inline(fr, ce, d, nil, token.ILLEGAL, true)
						return
					}
					// inside an expanded helper, a helper call that hands on several results (`return mergeLit(a, b)`)
					// is expanded in place: its returns are this helper's returns
					if n := d.Type.Results.NumFields(); n > 1 {
						e.inline(fr, e.hoistArgs(fr, ce), d, nil, token.ILLEGAL, true)
						return
					}
				}
			}
		}
		// a result computed by a package helper with a body of its own is computed first (`return nil, p.check(x)`
		// reads like `ok := p.check(x); return nil, ok`)
		{
			var hoisted []ast.Expr
			for i, r := range x.Results {
				if h := e.hoistCond(fr, r); h != r {
					if hoisted == nil {
						hoisted = append([]ast.Expr{}, x.Results...)
					}
					hoisted[i] = h
				}
			}
			if hoisted != nil {
				cp := *x
				cp.Results = hoisted
				x = &cp
			}
		}
		// … and so are helper calls among the arguments of a call that is returned (`return strings.Join(texts(e), sep)`)
		{
			var res []ast.Expr
			for i, r := range x.Results {
				if ce, ok := stripParens(r).(*ast.CallExpr); ok {
					if h := e.hoistArgs(fr, ce); h != ce {
						if res == nil {
							res = append([]ast.Expr{}, x.Results...)
						}
						res[i] = h
					}
				}
			}
			if res != nil {
				cp := *x
				cp.Results = res
				x = &cp
			}
		}
		for _, r := range x.Results {
			e.calls(fr, r)
		}
		var rs []string
		for _, r := range x.Results {
			rs = append(rs, e.render(fr, r))
		}
		// the frame that receives the value: walk up through tail frames
		target := fr
		for target.parent != nil && target.tail {
			target = target.parent
		}
		if target.parent == nil {
			e.add(pev{"return", strings.Join(rs, ","), x})
			e.finish()
			return
		}
		// return of an inlined helper: deliver the results, then skip the rest of the helper
		if target.retTo != nil {
			// `return f(…)` handing on the several results of one call: result i of the helper is result i of the call
			if len(rs) == 1 && len(target.retTo) > 1 {
				if _, isCall := stripParens(x.Results[0]).(*ast.CallExpr); isCall {
					call := rs[0]
					rs = nil
					for i := range target.retTo {
						rs = append(rs, fmt.Sprintf("res%d(%s)", i, call))
					}
				}
			}
			for i, l := range target.retTo {
				if id, ok := l.(*ast.Ident); ok && lname(id) == "_" {
					continue
				}
				v := ""
				if i < len(rs) {
					v = rs[i]
				}
				e.add(pev{"set", e.render(target.parent, l) + "=" + v, x})
			}
		}
		for i := range e.cur {
			if e.cur[i].brk == 0 && e.cur[i].ret == 0 {
				e.cur[i].ret = target.level
			}
		}
	case *ast.IfStmt:
		e.stmt(fr, x.Init)
		if hc := e.hoistCond(fr, x.Cond); hc != x.Cond {
			cp := *x
			cp.Init, cp.Cond = nil, hc
			x = &cp
		}
		e.calls(fr, x.Cond)
		before := e.cur
		e.cur = e.clone(before)
		e.addFacts(e.cond(fr, x.Cond, false), x)
		e.stmts(fr, x.Body.List)
		thenArm := e.cur
		e.cur = e.clone(before)
		// the negated condition in normal form: a conjunction (negated disjunction) is split like any other
		e.addFacts(e.cond(fr, x.Cond, true), x)
		if x.Else != nil {
			e.stmt(fr, x.Else)
		}
		e.cur = append(thenArm, e.cur...)
	case *ast.RangeStmt:
		// a list computed by a package helper is computed first (`for _, n := range sortedNames(m)` reads like
		// `ns := sortedNames(m); for _, n := range ns`)
		if ce, ok := stripParens(x.X).(*ast.CallExpr); ok {
			if d := e.helperOf(fr, ce); d != nil && d.Type.Results != nil && len(d.Type.Results.List) == 1 && len(d.Type.Results.List[0].Names) <= 1 && len(d.Body.List) >= 2 {
				*e.counter++
				name := fmt.Sprintf("hoisted%d", *e.counter)
				id := ast.NewIdent(name)
				fr.multi[name] = fmt.Sprintf("$%d", *e.counter)
				e.inline(fr, e.hoistArgs(fr, ce), d, []ast.Expr{id}, token.ASSIGN, false)
				cp := *x
				cp.X = id
				x = &cp
			}
		}
		e.calls(fr, x.X)
		e.depth++
		saved := map[string]string{}
		for k, v := range fr.subst {
			saved[k] = v
		}
		initSet := e.bindRange(fr, x)
		e.add(pev{"loop", "range " + e.render(fr, e.rangeOperand(x)), x})
		if initSet != "" {
			e.add(pev{"set", initSet, x})
		}
		e.stmts(fr, x.Body.List)
		fr.subst = saved
		e.endIteration()
		e.depth--
		e.add(pev{"endloop", "", x})
	case *ast.ForStmt:
		if rs := cutLoopAsRange(x); rs != nil {
			e.stmt(fr, rs)
			return
		}
		e.depth++
		saved := map[string]string{}
		for k, v := range fr.subst {
			saved[k] = v
		}
		if over := e.bindFor(fr, x); over != "" {
			e.add(pev{"loop", "range " + over, x})
			e.stmts(fr, x.Body.List)
		} else {
			// not the canonical slice loop: the loop variable is an ordinary local, its initialisation an ordinary
			// statement (so that a helper called there is expanded)
			fr.subst = map[string]string{}
			for k, v := range saved {
				fr.subst[k] = v
			}
			e.stmt(fr, x.Init)
			hdr := "for"
			if x.Cond != nil || x.Post != nil {
				init, post := "", ""
				switch p := x.Post.(type) {
				case *ast.IncDecStmt:
					post = e.render(fr, p.X) + p.Tok.String()
				case *ast.AssignStmt:
					if len(p.Lhs) == 1 && len(p.Rhs) == 1 {
						post = e.render(fr, p.Lhs[0]) + p.Tok.String() + e.render(fr, p.Rhs[0])
					}
				}
				c := ""
				if x.Cond != nil {
					c = e.cond(fr, x.Cond, false)
				}
				hdr = "for " + init + ";" + c + ";" + post
			}
			e.add(pev{"loop", hdr, x})
			e.stmts(fr, x.Body.List)
		}
		fr.subst = saved
		e.endIteration()
		e.depth--
		e.add(pev{"endloop", "", x})
	case *ast.SwitchStmt:
		e.stmt(fr, x.Init)
		tag := ""
		if x.Tag != nil {
			e.calls(fr, x.Tag)
			tag = e.render(fr, x.Tag)
		}
		before := e.cur
		var merged []nstate
		e.swLevel++
		e.swDepth = append(e.swDepth, e.depth)
		hasDefault := false
		var negs []string
		for _, cl := range x.Body.List {
			cc := cl.(*ast.CaseClause)
			if cc.List == nil {
				hasDefault = true
				continue
			}
			var alts []string
			for _, v := range cc.List {
				if tag != "" {
					alts = append(alts, canonText(tag+"=="+e.render(fr, v), false))
				} else {
					alts = append(alts, e.cond(fr, v, false))
				}
			}
			e.cur = e.clone(before)
			// earlier clauses did not match
			for _, ng := range negs {
				e.add(pev{"+", ng, cc})
			}
			if len(alts) == 1 {
				e.addFacts(alts[0], cc)
			} else {
				e.add(pev{"+", strings.Join(alts, "||"), cc})
			}
			e.stmts(fr, cc.Body)
			merged = append(merged, e.cur...)
			for _, a := range alts {
				negs = append(negs, canonText(a, true))
			}
		}
		// default clause, or no clause taken
		e.cur = e.clone(before)
		for _, ng := range negs {
			e.add(pev{"+", ng, x})
		}
		if hasDefault {
			for _, cl := range x.Body.List {
				if cc := cl.(*ast.CaseClause); cc.List == nil {
					e.stmts(fr, cc.Body)
				}
			}
		}
		merged = append(merged, e.cur...)
		for i := range merged {
			if merged[i].brk == e.swLevel {
				merged[i].brk = 0
			}
		}
		e.swLevel--
		e.swDepth = e.swDepth[:len(e.swDepth)-1]
		e.cur = merged
	case *ast.TypeSwitchStmt:
		before := e.cur
		var merged []nstate
		e.swLevel++
		e.swDepth = append(e.swDepth, e.depth)
		hasDefault := false
		// the bound variable is the switched value in every clause
		bound, tagText := "", ""
		switch a := x.Assign.(type) {
		case *ast.AssignStmt:
			if ta, ok := a.Rhs[0].(*ast.TypeAssertExpr); ok {
				bound = nospaceLit(a.Lhs[0])
				tagText = e.render(fr, ta.X)
			}
		case *ast.ExprStmt:
			if ta, ok := a.X.(*ast.TypeAssertExpr); ok {
				tagText = e.render(fr, ta.X)
			}
		}
		saved := map[string]string{}
		for k, v := range fr.subst {
			saved[k] = v
		}
		if bound != "" && bound != "_" {
			fr.subst[bound] = tagText
		}
		for _, cl := range x.Body.List {
			cc := cl.(*ast.CaseClause)
			e.cur = e.clone(before)
			var ts []string
			for _, t := range cc.List {
				ts = append(ts, nospaceLit(t))
			}
			if cc.List == nil {
				ts = []string{"default"}
				hasDefault = true
			}
			e.add(pev{"tcase", tagText + ":" + strings.Join(ts, ","), cc})
			// inside an expanded helper a clause for one type reads like the comma-ok assertion it stands for: the
			// bound variable is the asserted value and the assertion is known to hold (the caller's rules are stated
			// on `v, ok := x.(*T)`)
			typed := fr.level > 0 && len(cc.List) == 1 && tagText != "" && ts[0] != "nil"
			if typed {
				e.add(pev{"+", "ok(" + tagText + ".(" + ts[0] + "))", cc})
				if bound != "" && bound != "_" {
					fr.subst[bound] = tagText + ".(" + ts[0] + ")"
				}
			}
			e.stmts(fr, cc.Body)
			if typed && bound != "" && bound != "_" {
				fr.subst[bound] = tagText
			}
			merged = append(merged, e.cur...)
		}
		if !hasDefault {
			e.cur = e.clone(before)
			e.add(pev{"tcase", tagText + ":<none>", x})
			merged = append(merged, e.cur...)
		}
		fr.subst = saved
		for i := range merged {
			if merged[i].brk == e.swLevel {
				merged[i].brk = 0
			}
		}
		e.swLevel--
		e.swDepth = e.swDepth[:len(e.swDepth)-1]
		e.cur = merged
	case *ast.DeferStmt:
		e.add(pev{"call", "defer " + e.render(fr, x.Call), x})
	case *ast.GoStmt:
		e.add(pev{"call", "go " + e.render(fr, x.Call), x})
	case *ast.BranchStmt:
		lbl := ""
		if x.Label != nil {
			lbl = " " + x.Label.Name
		}
		e.add(pev{"branch", x.Tok.String() + lbl, x})
		live := func(st nstate) bool { return st.brk == 0 && st.ret == 0 && st.skip == 0 }
		switch {
		case x.Tok == token.GOTO || x.Tok == token.FALLTHROUGH:
			// not used by the analysed code; kept as an event only
		case x.Tok == token.BREAK && x.Label == nil && e.swLevel > 0 && e.swDepth[len(e.swDepth)-1] == e.depth:
			for i := range e.cur {
				if live(e.cur[i]) {
					e.cur[i].brk = e.swLevel
				}
			}
		case x.Label != nil && e.labels[x.Label.Name] > 0:
			// leaves (or continues) the labelled loop: skip to the end of its current iteration
			for i := range e.cur {
				if live(e.cur[i]) {
					e.cur[i].skip = e.labels[x.Label.Name]
				}
			}
		case e.depth > e.baseDepth:
			for i := range e.cur {
				if live(e.cur[i]) {
					e.cur[i].skip = e.depth
				}
			}
		case fr.parent == nil:
			e.finish() // leaves the analysed block
		}
	default:
		e.add(pev{"other", fmt.Sprintf("%T", s), s})
	}
	if len(e.cur)+len(e.finished) > 8192 {
		e.overflow = true
	}
}

// callsInLhs emits the calls occurring inside an assignment target (index expressions).
func (e *nenum) callsInLhs(fr *nframe, l ast.Expr) {
	switch x := l.(type) {
	case *ast.IndexExpr:
		e.callsInLhs(fr, x.X)
		e.calls(fr, x.Index)
	case *ast.SelectorExpr:
		e.callsInLhs(fr, x.X)
	case *ast.StarExpr:
		e.callsInLhs(fr, x.X)
	case *ast.ParenExpr:
		e.callsInLhs(fr, x.X)
	}
}

// ---- queries on normalised paths ----

// facts returns the facts of the path.
func (p bpath) facts() []string {
	var out []string
	for _, e := range p {
		if e.Kind == "+" {
			out = append(out, e.Text)
		}
	}
	return out
}

// holds reports whether the path assumes cond (source text; compared in normal form, conjunct-wise).
func (p bpath) holds(cond string) bool {
	for _, cj := range splitTop(canonText(cond, false), "&&") {
		found := false
		for _, e := range p {
			if e.Kind != "+" {
				continue
			}
			if e.Text == cj {
				found = true
				continue
			}
			// an assumed conjunction (a condition kept in a boolean local) assumes each of its conjuncts
			if strings.Contains(e.Text, "&&") {
				for _, part := range splitTop(e.Text, "&&") {
					if part == cj {
						found = true
					}
				}
			}
		}
		if !found {
			return false
		}
	}
	return true
}

// refutes reports whether the path assumes the negation of cond.
func (p bpath) refutes(cond string) bool {
	neg := canonText(cond, true)
	for _, e := range p {
		if e.Kind == "+" && e.Text == neg {
			return true
		}
	}
	// the negation of a conjunction holds if the negation of one conjunct does
	cjs := splitTop(canonText(cond, false), "&&")
	if len(cjs) > 1 {
		for _, cj := range cjs {
			n := canonText(cj, true)
			for _, e := range p {
				if e.Kind == "+" && e.Text == n {
					return true
				}
			}
		}
	}
	return false
}

// otherFacts lists the facts of the path that are neither one of the allowed conditions nor a negation of one.
func (p bpath) otherFacts(allowed ...string) []string {
	ok := map[string]bool{}
	for _, a := range allowed {
		for _, cj := range splitTop(canonText(a, false), "&&") {
			ok[cj] = true
			ok[canonText(cj, true)] = true
		}
		ok[canonText(a, true)] = true
	}
	var out []string
	for _, e := range p {
		if e.Kind == "+" && !ok[e.Text] {
			out = append(out, e.Text)
		}
	}
	return out
}

// evIndex finds the first event of the kind whose text satisfies match, from position from (-1 if none).
func (p bpath) evIndex(kind string, from int, match func(string) bool) int {
	for i := from; i < len(p); i++ {
		if p[i].Kind == kind && match(p[i].Text) {
			return i
		}
	}
	return -1
}

func (p bpath) texts(kind string) []string {
	var out []string
	for _, e := range p {
		if e.Kind == kind {
			out = append(out, e.Text)
		}
	}
	return out
}

func sortedCopy(s []string) []string {
	out := append([]string{}, s...)
	sort.Strings(out)
	return out
}

var groupParenRe = regexp.MustCompile(`(^|[^A-Za-z0-9_\]\)])\(([A-Za-z_$#][A-Za-z_0-9.$#\[\]]*)\)`)
var assertRe = regexp.MustCompile(`\.\(\*?[A-Za-z_][A-Za-z_0-9.]*\)`)

// stripAsserts removes type assertions (and the parentheses they needed) from a rendered expression:
// (expr.(*RuleRefExpr)).Name.Val -> expr.Name.Val. The asserted type is a fact of the path, not part of the value.
func stripAsserts(s string) string {
	for {
		t := assertRe.ReplaceAllString(s, "")
		// a grouping parenthesis around a plain operand: (ident) -> ident (never the parentheses of a call)
		t = groupParenRe.ReplaceAllString(t, "${1}${2}")
		if t == s {
			return s
		}
		s = t
	}
}

// resolveAliases rewrites, along a path, stores through a numbered local that was installed into a container
// (`set C[k]=$n` … `set $n[j]=v`) as stores into the container element (`set C[k][j]=v`).
func resolveAliases(p bpath) bpath {
	alias := map[string]string{}
	out := make(bpath, 0, len(p))
	for _, e := range p {
		ne := e
		if e.Kind == "set" {
			if i := strings.Index(e.Text, "="); i > 0 {
				lhs, rhs := e.Text[:i], e.Text[i+1:]
				if dollarRe.MatchString(rhs) && dollarRe.FindString(rhs) == rhs && !strings.HasPrefix(lhs, "$") {
					alias[rhs] = lhs
				}
				// a local read from a container element names that element (maps and slices are references)
				if dollarRe.FindString(lhs) == lhs && lhs != "" && strings.HasSuffix(rhs, "]") && !strings.Contains(stripAsserts(rhs), "(") {
					alias[lhs] = rhs
				} else if dollarRe.FindString(lhs) == lhs && lhs != "" {
					delete(alias, lhs)
				}
				for a, t := range alias {
					if strings.HasPrefix(lhs, a+"[") || strings.HasPrefix(lhs, a+".") {
						ne.Text = t + lhs[len(a):] + "=" + rhs
					}
				}
			}
		}
		out = append(out, ne)
	}
	return out
}

// withConsts records the package-level constants of the files (name -> literal text) so that a named literal and the
// literal itself render the same.
func (c *nctx) withConsts(files []*ast.File) *nctx {
	c.consts = map[string]string{}
	for _, f := range files {
		for _, d := range f.Decls {
			gd, ok := d.(*ast.GenDecl)
			if !ok || gd.Tok != token.CONST {
				continue
			}
			for _, sp := range gd.Specs {
				vs, ok := sp.(*ast.ValueSpec)
				if !ok {
					continue
				}
				for i, nm := range vs.Names {
					if i < len(vs.Values) {
						if bl, ok := vs.Values[i].(*ast.BasicLit); ok {
							c.consts[nm.Name] = nospaceLit(bl)
						}
					}
				}
			}
		}
	}
	return c
}

// callSitesOf counts the calls of a function or method of the package by name, over all functions of the package.
func (e *nenum) callSitesOf(d *ast.FuncDecl) int {
	if e.c.callSites == nil {
		e.c.callSites = map[string]int{}
		seen := map[*ast.FuncDecl]bool{}
		for _, f := range e.c.funcs {
			if f == nil || f.Body == nil || seen[f] {
				continue
			}
			seen[f] = true
			ast.Inspect(f.Body, func(n ast.Node) bool {
				if ce, ok := n.(*ast.CallExpr); ok {
					switch x := ce.Fun.(type) {
					case *ast.Ident:
						e.c.callSites[x.Name]++
					case *ast.SelectorExpr:
						e.c.callSites[x.Sel.Name]++
					}
				}
				return true
			})
		}
	}
	return e.c.callSites[d.Name.Name]
}

// namesLibraryExpr: the expression is built from calls of library functions (pkg.Func) and builtins, selections,
// indexing and the function's own parameters only - no call of a function or method of the analysed package.
func namesLibraryExpr(c *nctx, x ast.Expr) bool {
	ok, hasLib := true, false
	ast.Inspect(x, func(n ast.Node) bool {
		switch v := n.(type) {
		case *ast.FuncLit:
			ok = false
		case *ast.CallExpr:
			switch f := v.Fun.(type) {
			case *ast.Ident:
				if c.funcs[f.Name] != nil {
					ok = false
				}
			case *ast.SelectorExpr:
				id, isID := f.X.(*ast.Ident)
				if !isID {
					ok = false
					break
				}
				switch id.Name {
				case "slices", "maps", "strings", "sort", "bytes", "strconv", "unicode", "utf8":
					hasLib = true
				default:
					ok = false
				}
			default:
				ok = false
			}
		}
		return ok
	})
	return ok && hasLib
}
