package rules

import (
	"fmt"
	"go/ast"
	"go/parser"
	"go/token"
	"strconv"
	"strings"

	"pigeonverif/internal/load"
)

// Subtracted subscripts (C13-n). An index or slice bound of the form v-k (k a positive integer literal, v anything
// but a len(...) call, whose operand-specific treatment is C13-j) is in range only if v >= k where it is evaluated.
// The rule demands a dominating fact that says so:
//   - a conjunct to its left in the same && chain, the condition of an enclosing if (or the negated condition, in
//     the else arm), the clause of an enclosing condition switch, or the condition of an enclosing loop;
//   - an early exit `if v < k { return | continue | break | … }` earlier in an enclosing block;
//   - v is the counter of an enclosing `for v := c; …; v++` with a literal c >= k;
// and, in each case, no assignment to v (=, op=, ++, --) between the place the fact was established and the
// subscript. Positions handed out by the parser runtime (a line break is reported at column 0), counters that were
// clamped from above only, lengths of other containers: none of these says v >= k.

type subFinding struct {
	pos token.Pos
	x   string // the container
	v   string // the minuend
	k   int
	why string // non-empty: proved
}

// lowerBoundFact: does the canonical condition (a conjunction) state v >= k?
func lowerBoundFact(cond, v string, k int) bool {
	for _, cj := range splitTop(cond, "&&") {
		cj = strings.TrimSpace(cj)
		for strings.HasPrefix(cj, "(") && strings.HasSuffix(cj, ")") && balancedParens(cj[1:len(cj)-1]) {
			cj = cj[1 : len(cj)-1]
		}
		for _, op := range []string{">=", "==", ">"} {
			if !strings.HasPrefix(cj, v+op) {
				continue
			}
			n, err := strconv.Atoi(cj[len(v)+len(op):])
			if err != nil {
				continue
			}
			switch op {
			case ">=", "==":
				if n >= k {
					return true
				}
			case ">":
				if n >= k-1 {
					return true
				}
			}
		}
	}
	return false
}

// lengthLocal: v is a local whose only definition is a len(...) / cap(...) call.
func lengthLocal(body *ast.BlockStmt, v string) bool {
	if !token.IsIdentifier(v) {
		return false
	}
	defs, isLen := 0, false
	ast.Inspect(body, func(n ast.Node) bool {
		switch x := n.(type) {
		case *ast.AssignStmt:
			for i, l := range x.Lhs {
				if nospace(l) != v {
					continue
				}
				defs++
				if len(x.Rhs) == len(x.Lhs) && x.Tok == token.DEFINE {
					if ce, ok := stripParens(x.Rhs[i]).(*ast.CallExpr); ok {
						if fn := nospace(ce.Fun); fn == "len" || fn == "cap" {
							isLen = true
						}
					}
				}
			}
		case *ast.IncDecStmt:
			if nospace(x.X) == v {
				defs++
			}
		}
		return true
	})
	return defs == 1 && isLen
}

// nonNegativeCounter: v is the key of an enclosing range loop or the counter of an enclosing loop that starts at a
// literal >= 0 and only grows: for such a v the fact v != 0 says v >= 1.
func nonNegativeCounter(path []ast.Node, node ast.Node, v string) bool {
	for _, p := range path {
		switch x := p.(type) {
		case *ast.RangeStmt:
			if x.Key != nil && nospace(x.Key) == v && x.Body.Pos() <= node.Pos() && node.End() <= x.Body.End() && !writtenBetween(x.Body, v, x.Body.Pos(), x.Body.End()) {
				return true
			}
		case *ast.ForStmt:
			as, ok := x.Init.(*ast.AssignStmt)
			if !ok || len(as.Lhs) != 1 || len(as.Rhs) != 1 || nospace(as.Lhs[0]) != v {
				continue
			}
			if c, err := strconv.Atoi(nospace(as.Rhs[0])); err != nil || c < 0 {
				continue
			}
			up := false
			switch post := x.Post.(type) {
			case *ast.IncDecStmt:
				up = post.Tok == token.INC && nospace(post.X) == v
			case *ast.AssignStmt:
				up = post.Tok == token.ADD_ASSIGN && len(post.Lhs) == 1 && nospace(post.Lhs[0]) == v
			}
			if up && !writtenBetween(x.Body, v, x.Body.Pos(), x.Body.End()) {
				return true
			}
		}
	}
	return false
}

func balancedParens(s string) bool {
	d := 0
	for _, ch := range s {
		switch ch {
		case '(':
			d++
		case ')':
			d--
			if d < 0 {
				return false
			}
		}
	}
	return d == 0
}

// writtenBetween: v is assigned, op-assigned, incremented or decremented at a position in [from, to) inside root.
func writtenBetween(root ast.Node, v string, from, to token.Pos) bool {
	found := false
	ast.Inspect(root, func(n ast.Node) bool {
		switch x := n.(type) {
		case *ast.AssignStmt:
			if x.Pos() >= from && x.Pos() < to {
				for _, l := range x.Lhs {
					if nospace(l) == v {
						found = true
					}
				}
			}
		case *ast.IncDecStmt:
			if x.Pos() >= from && x.Pos() < to && nospace(x.X) == v {
				found = true
			}
		case *ast.RangeStmt:
			if x.Pos() >= from && x.Pos() < to {
				for _, e := range []ast.Expr{x.Key, x.Value} {
					if e != nil && nospace(e) == v {
						found = true
					}
				}
			}
		}
		return true
	})
	return found
}

func blockExits(b *ast.BlockStmt) bool {
	if b == nil || len(b.List) == 0 {
		return false
	}
	switch x := b.List[len(b.List)-1].(type) {
	case *ast.ReturnStmt, *ast.BranchStmt:
		return true
	case *ast.ExprStmt:
		if ce, ok := x.X.(*ast.CallExpr); ok && exitingCalls[callName(ce)] {
			return true
		}
	}
	return false
}

// lowerBoundProved: why v >= k is known where node stands inside body ("" = not proved).
func lowerBoundProved(body *ast.BlockStmt, node ast.Node, v string, k int) string {
	var stack, path []ast.Node
	ast.Inspect(body, func(nd ast.Node) bool {
		if nd == nil {
			stack = stack[:len(stack)-1]
			return true
		}
		stack = append(stack, nd)
		if nd == node {
			path = append([]ast.Node{}, stack...)
		}
		return true
	})
	inside := func(outer ast.Node) bool {
		return outer != nil && outer.Pos() <= node.Pos() && node.End() <= outer.End()
	}
	counter := k == 1 && nonNegativeCounter(path, node, v)
	lowerBoundFact := func(cond, v string, k int) bool {
		if lowerBoundFact(cond, v, k) {
			return true
		}
		if counter {
			for _, cj := range splitTop(cond, "&&") {
				if strings.TrimSpace(cj) == v+"!=0" {
					return true
				}
			}
		}
		return false
	}
	for i := len(path) - 2; i >= 0; i-- {
		switch p := path[i].(type) {
		case *ast.BinaryExpr:
			if p.Op == token.LAND && inside(p.Y) && lowerBoundFact(canonCond(p.X, false), v, k) {
				return "left conjunct " + nospace(p.X)
			}
		case *ast.IfStmt:
			if inside(p.Body) && lowerBoundFact(canonCond(p.Cond, false), v, k) && !writtenBetween(p.Body, v, p.Body.Pos(), node.Pos()) {
				return "enclosing if " + nospace(p.Cond)
			}
			if p.Else != nil && inside(p.Else) && lowerBoundFact(canonCond(p.Cond, true), v, k) && !writtenBetween(p.Else, v, p.Else.Pos(), node.Pos()) {
				return "else arm of if " + nospace(p.Cond)
			}
		case *ast.ForStmt:
			if !inside(p.Body) {
				continue
			}
			if p.Cond != nil && lowerBoundFact(canonCond(p.Cond, false), v, k) && !writtenBetween(p.Body, v, p.Body.Pos(), node.Pos()) {
				return "enclosing loop condition " + nospace(p.Cond)
			}
			// an upward counter that starts at c >= k
			if as, ok := p.Init.(*ast.AssignStmt); ok && len(as.Lhs) == 1 && len(as.Rhs) == 1 && nospace(as.Lhs[0]) == v {
				if c, err := strconv.Atoi(nospace(as.Rhs[0])); err == nil && c >= k {
					up := false
					switch post := p.Post.(type) {
					case *ast.IncDecStmt:
						up = post.Tok == token.INC && nospace(post.X) == v
					case *ast.AssignStmt:
						up = post.Tok == token.ADD_ASSIGN && len(post.Lhs) == 1 && nospace(post.Lhs[0]) == v
					}
					if up && !writtenBetween(p.Body, v, p.Body.Pos(), p.Body.End()) {
						return fmt.Sprintf("counter of the enclosing loop, which starts at %d and only grows", c)
					}
				}
			}
		case *ast.CaseClause:
			if len(p.List) == 1 && i >= 2 && len(p.Body) > 0 && p.Body[0].Pos() <= node.Pos() {
				if sw, ok := path[i-2].(*ast.SwitchStmt); ok && sw.Tag == nil && lowerBoundFact(canonCond(p.List[0], false), v, k) && !writtenBetween(p, v, p.Body[0].Pos(), node.Pos()) {
					return "enclosing case " + nospace(p.List[0])
				}
			}
		}
		// early exits that precede the statement containing the subscript in this block
		var list []ast.Stmt
		switch p := path[i].(type) {
		case *ast.BlockStmt:
			list = p.List
		case *ast.CaseClause:
			list = p.Body
		}
		for _, st := range list {
			if st.End() > node.Pos() {
				break
			}
			is, ok := st.(*ast.IfStmt)
			if !ok || is.Else != nil || !blockExits(is.Body) {
				continue
			}
			if lowerBoundFact(canonCond(is.Cond, true), v, k) && !writtenBetween(body, v, is.End(), node.Pos()) {
				return "early exit on " + nospace(is.Cond) + " before it"
			}
		}
	}
	return ""
}

// subtractedSubscripts lists the index / slice-bound expressions of the form v-k in body.
func subtractedSubscripts(body *ast.BlockStmt) []subFinding {
	var out []subFinding
	consider := func(x ast.Expr, e ast.Expr) {
		be, ok := stripParens(e).(*ast.BinaryExpr)
		if !ok || be.Op != token.SUB {
			return
		}
		k, err := strconv.Atoi(nospace(be.Y))
		if err != nil || k < 1 {
			return
		}
		v := nospace(stripParens(be.X))
		if strings.HasPrefix(v, "len(") || strings.HasPrefix(v, "cap(") {
			return // a length: C13-j (x[len(x)-1]) and the grammar's own guarantees about bracketed text
		}
		if _, err := strconv.Atoi(v); err == nil {
			return
		}
		if lengthLocal(body, v) {
			return // n := len(x) … x[n-1]: a length held in a local, same domain as above
		}
		out = append(out, subFinding{pos: e.Pos(), x: nospace(x), v: v, k: k, why: lowerBoundProved(body, e, v, k)})
	}
	ast.Inspect(body, func(n ast.Node) bool {
		switch x := n.(type) {
		case *ast.IndexExpr:
			consider(x.X, x.Index)
		case *ast.SliceExpr:
			for _, b := range []ast.Expr{x.Low, x.High, x.Max} {
				if b != nil {
					consider(x.X, b)
				}
			}
		}
		return true
	})
	return out
}

const subControlSrc = `package p
func marker(line []rune, col int) []rune {
	if col > len(line) {
		col = len(line) + 1
	}
	return line[:col-1]
}
func stale(xs []int, i int) int {
	if i > 0 {
		i--
		return xs[i-1]
	}
	return 0
}
func fine(xs []int, i, col int) int {
	if col < 1 {
		return 0
	}
	s := 0
	for j := 1; j < len(xs); j++ {
		s += xs[j-1]
	}
	if i > 0 && xs[i-1] > 0 {
		s += xs[col-1]
	}
	switch {
	case i >= 2:
		s += xs[i-2]
	}
	n := len(xs)
	if len(xs) > 0 {
		s += xs[n-1]
	}
	for k := range xs {
		if k == 0 {
			continue
		}
		s += xs[k-1]
	}
	return s
}`

func c13SubtractedSubscripts(c *Ctx, g *load.G) {
	r := c.R
	cf, err := parser.ParseFile(token.NewFileSet(), "control.go", subControlSrc, 0)
	ctrl := err == nil
	if err == nil {
		for _, d := range cf.Decls {
			fd, ok := d.(*ast.FuncDecl)
			if !ok {
				continue
			}
			fs := subtractedSubscripts(fd.Body)
			unproved := 0
			for _, f := range fs {
				if f.why == "" {
					unproved++
				}
			}
			switch fd.Name.Name {
			case "marker", "stale":
				ctrl = ctrl && len(fs) == 1 && unproved == 1
			case "fine":
				ctrl = ctrl && len(fs) == 5 && unproved == 0
			}
		}
	}
	if !ctrl {
		r.Fatal("C13-n: the subtracted-subscript rule does not behave on its control example")
	}
	n := 0
	for _, sfx := range []string{"", "ast", "builder"} {
		p := g.Pkg(sfx)
		if p == nil {
			continue
		}
		for _, fd := range load.AllFuncDecls(p) {
			if fd.Body == nil {
				continue
			}
			fn := g.Fset.Position(fd.Pos()).Filename
			if strings.HasSuffix(fn, "_test.go") || strings.HasSuffix(fn, "/pigeon.go") || strings.HasSuffix(fn, "generated_static_code.go") || strings.HasSuffix(fn, "generated_static_code_range_table.go") {
				continue
			}
			seen := map[string]int{}
			for _, f := range subtractedSubscripts(fd.Body) {
				n++
				base := fmt.Sprintf("G.%s.%s.%s:subscript %s[%s-%d]", sfx, load.RecvName(fd), fd.Name.Name, f.x, f.v, f.k)
				seen[base]++
				construct := base
				if seen[base] > 1 {
					construct = fmt.Sprintf("%s#%d", base, seen[base])
				}
				if f.why == "" {
					// a parameter the function does not assign: every caller knows
					if idx, isParam := paramIndexByName(fd, f.v); isParam && !writtenBetween(fd.Body, f.v, fd.Body.Pos(), fd.Body.End()) {
						sites := newFlow(p, nil).callSites(fd)
						all := len(sites) > 0
						for _, cs := range sites {
							if idx >= len(cs.Call.Args) || cs.In == nil || cs.In.Body == nil || lowerBoundProved(cs.In.Body, cs.Call, nospace(stripParens(cs.Call.Args[idx])), f.k) == "" {
								all = false
							}
						}
						if all {
							f.why = fmt.Sprintf("parameter: at least %d at each of its %d call sites", f.k, len(sites))
						}
					}
				}
				r.Check(f.why != "", "C13-n", construct, "", g.Where(f.pos), f.why,
					fmt.Sprintf("nothing establishes %s >= %d where %s[…%s-%d…] is evaluated (no dominating test, early exit or upward counter; a value that was only clamped from above, or a position handed out by the parser - a line break is reported at column 0 - may be smaller): the subscript is negative and pigeon dies with a Go panic trace instead of a diagnostic", f.v, f.k, f.x, f.v, f.k))
			}
		}
	}
	r.Analysed["subtracted_subscripts"] = n
	r.Min("C13-n subtracted subscripts", 2, n)
}
