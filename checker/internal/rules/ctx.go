// Package rules holds the per-property rule sets (DESIGN.md §3).
package rules

import (
	"fmt"
	"go/ast"
	"go/token"
	"go/types"
	"strings"

	"pigeonverif/internal/load"
	"pigeonverif/internal/ob"
	"pigeonverif/internal/skeleton"
	"pigeonverif/internal/variants"
)

// Ctx lazily loads and caches everything the rules analyse.
type Ctx struct {
	Tier     string
	src      *variants.Source
	std      *variants.Std
	g        *load.G
	skel     *skeleton.Gen
	vars     map[string]*variants.Variant
	absCache map[string]*absVariant
	normAst  *nctx            // normal-form enumerators per generator package (nform.go)
	normPkg  map[string]*nctx // by package suffix
	R        *ob.Report
	// C13: dereferences of looked-up rules in the left-recursion pass (c13n.go)
	sccDone    bool
	sccCovered map[*ast.FuncDecl]bool
	sccWhy     string
	// C07-b / C08-e: what ComputeLeftRecursives marks (leftrec_n.go)
	lrDone     bool
	lrProblems map[string][]string
}

func NewCtx(tier string, r *ob.Report) *Ctx {
	return &Ctx{Tier: tier, R: r, vars: map[string]*variants.Variant{}}
}

// Share copies the caches of prev (loaded packages, variants, abstract interpretation) into c, so that several
// properties can be decided in one process without reloading.
func (c *Ctx) Share(prev *Ctx) {
	if prev == nil {
		return
	}
	c.src, c.std, c.g, c.skel, c.vars, c.absCache = prev.src, prev.std, prev.g, prev.skel, prev.vars, prev.absCache
	c.normAst, c.normPkg = prev.normAst, prev.normPkg
}

func (c *Ctx) Thorough() bool { return c.Tier == "thorough" }

// Src returns the template source; failure is a machinery failure.
func (c *Ctx) Src() *variants.Source {
	if c.src == nil {
		s, err := variants.ReadSource(load.Repo())
		if err != nil {
			c.R.Fatal("cannot read template source: %v", err)
			return nil
		}
		c.src = s
	}
	return c.src
}

func (c *Ctx) Std() *variants.Std {
	if c.std == nil {
		src := c.Src()
		if src == nil {
			return nil
		}
		s, err := variants.LoadStd(src.StdImports)
		if err != nil {
			c.R.Fatal("cannot load standard library types: %v", err)
			return nil
		}
		c.std = s
	}
	return c.std
}

// G loads the generator packages (root, ast, builder, bootstrap commands).
func (c *Ctx) G() *load.G {
	if c.g == nil {
		g, err := load.Load(".", "./ast", "./builder", "./bootstrap", "./bootstrap/...")
		if err != nil {
			c.R.Fatal("cannot load generator packages: %v", err)
			return nil
		}
		if g.Pkg("") == nil || g.Pkg("ast") == nil || g.Pkg("builder") == nil {
			c.R.Fatal("generator packages missing after load")
			return nil
		}
		c.g = g
		c.R.Analysed["generator_packages"] = len(g.Pkgs)
	}
	return c.g
}

func (c *Ctx) Skel() *skeleton.Gen {
	if c.skel == nil {
		g := c.G()
		if g == nil {
			return nil
		}
		c.skel = skeleton.New(g.Pkg("builder"))
	}
	return c.skel
}

// flagsFor maps a parameter vector to builder flag values through the wiring read from writeStaticCode.
func (c *Ctx) flagsFor(p variants.Params) skeleton.Flags {
	f := skeleton.Flags{}
	vals := map[string]bool{"Optimize": p.Optimize, "BasicLatinLookupTable": p.BasicLatinLookupTable,
		"GlobalState": p.GlobalState, "LeftRecursion": p.LeftRecursion, "Nolint": p.Nolint}
	for param, field := range c.Skel().ParamWiring {
		if v, ok := vals[param]; ok {
			f[field] = v
		}
	}
	return f
}

// Variant builds (cached) the variant for p with the then-arm skeleton.
func (c *Ctx) Variant(p variants.Params) *variants.Variant {
	if v, ok := c.vars[p.Name()]; ok {
		return v
	}
	src, std, sk := c.Src(), c.Std(), c.Skel()
	if src == nil || std == nil || sk == nil {
		return nil
	}
	skel := sk.Source(c.flagsFor(p), p.GlobalState, false)
	v, err := src.Build(p, std, skel, true)
	if err != nil {
		c.R.Fatal("variant %s: %v", p.Name(), err)
		c.vars[p.Name()] = nil
		return nil
	}
	if len(v.TypeErrs) > 0 {
		c.R.Fatal("variant %s does not type-check: %v", p.Name(), v.TypeErrs[0])
	}
	c.vars[p.Name()] = v
	return v
}

// SemanticVariants returns the 16 Nolint=false variants that build.
func (c *Ctx) SemanticVariants() []*variants.Variant {
	var out []*variants.Variant
	for _, p := range variants.Semantic() {
		if v := c.Variant(p); v != nil && len(v.TypeErrs) == 0 {
			out = append(out, v)
		}
	}
	c.R.Analysed["semantic_variants"] = len(out)
	return out
}

// ---- small AST helpers shared by the rules ----

func exprStr(fset *token.FileSet, e ast.Expr) string { return types.ExprString(e) }

// selPath renders a selector chain a.b.c as "a.b.c" ("" if not a pure chain).
func selPath(e ast.Expr) string {
	switch x := e.(type) {
	case *ast.Ident:
		return x.Name
	case *ast.SelectorExpr:
		p := selPath(x.X)
		if p == "" {
			return ""
		}
		return p + "." + x.Sel.Name
	case *ast.ParenExpr:
		return selPath(x.X)
	case *ast.StarExpr:
		p := selPath(x.X)
		if p == "" {
			return ""
		}
		return "*" + p
	}
	return ""
}

// callName returns "recv.method" / "pkg.func" / "func" of a call.
func callName(c *ast.CallExpr) string {
	return selPath(c.Fun)
}

// callSel returns the final selector (method / function name) of a call.
func callSel(c *ast.CallExpr) string {
	switch f := c.Fun.(type) {
	case *ast.SelectorExpr:
		return f.Sel.Name
	case *ast.Ident:
		return f.Name
	}
	return ""
}

func hasSuffixAny(s string, suf ...string) bool {
	for _, x := range suf {
		if strings.HasSuffix(s, x) {
			return true
		}
	}
	return false
}

func sprintf(f string, a ...any) string { return fmt.Sprintf(f, a...) }

// guardsOf returns the conditions of the if statements enclosing pos inside root, outermost first, in the normal
// form of canonCond; for a position in the else arm the condition is negated (in normal form as well).
func guardsOf(root ast.Node, pos token.Pos) []string {
	var out []string
	ast.Inspect(root, func(n ast.Node) bool {
		if n == nil {
			return true
		}
		if !(n.Pos() <= pos && pos < n.End()) {
			return false
		}
		if is, ok := n.(*ast.IfStmt); ok {
			switch {
			case is.Body.Pos() <= pos && pos < is.Body.End():
				out = append(out, canonCond(is.Cond, false))
			case is.Else != nil && is.Else.Pos() <= pos && pos < is.Else.End():
				out = append(out, canonCond(is.Cond, true))
			}
		}
		return true
	})
	return out
}

// nospace renders an expression without blanks.
func nospace(e ast.Expr) string { return strings.ReplaceAll(types.ExprString(e), " ", "") }

// callsIn lists the calls (by callName) inside n, in source order.
func callsIn(n ast.Node) []*ast.CallExpr {
	var out []*ast.CallExpr
	ast.Inspect(n, func(m ast.Node) bool {
		if ce, ok := m.(*ast.CallExpr); ok {
			out = append(out, ce)
		}
		return true
	})
	return out
}

func variantsAll() []variants.Params { return variants.All() }

// pkgNorm returns the normal-form enumerator of a generator package (by suffix: "", "ast", "builder", "bootstrap").
func (c *Ctx) pkgNorm(suffix string) *nctx {
	if suffix == "ast" {
		return c.astNorm()
	}
	if c.normPkg == nil {
		c.normPkg = map[string]*nctx{}
	}
	if n, ok := c.normPkg[suffix]; ok {
		return n
	}
	g := c.G()
	pkg := g.Pkg(suffix)
	var decls []*ast.FuncDecl
	for i, f := range pkg.Syntax {
		fn := pkg.CompiledGoFiles[i]
		if strings.HasSuffix(fn, "/pigeon.go") || strings.HasSuffix(fn, "_test.go") {
			continue
		}
		for _, d := range f.Decls {
			if fd, ok := d.(*ast.FuncDecl); ok {
				decls = append(decls, fd)
			}
		}
	}
	n := newNctx(decls).withConsts(pkg.Syntax)
	c.normPkg[suffix] = n
	return n
}

// vnorm returns the normal-form enumerator of a template variant (cached).
func (c *Ctx) vnorm(v *variants.Variant) *nctx {
	if c.normPkg == nil {
		c.normPkg = map[string]*nctx{}
	}
	key := "variant:" + v.Name
	if n, ok := c.normPkg[key]; ok {
		return n
	}
	n := newNctx(v.Funcs()).withConsts([]*ast.File{v.File})
	c.normPkg[key] = n
	return n
}
