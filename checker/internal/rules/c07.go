package rules

import (
	"fmt"
	"go/ast"
	"go/token"
	"sort"
	"strings"

	"pigeonverif/internal/load"
)

// C07 — left recursion is detected: rejected by default, never silently accepted.
func C07(c *Ctx) {
	r := c.R
	r.Technique = "per-kind obligation table for the three analysis methods (InitialNames, NullableVisit, IsNullable) of the 18 expression types, decided on their syntax trees; ordering/dominance rules on PrepareGrammar, ComputeLeftRecursives and buildParser"
	r.Explanation = "The detector is sound iff InitialNames over-approximates 'rules that can be entered at the expression's start position' and Nullable over-approximates 'can succeed without consuming input'. Decided, one obligation per kind and method: the set returned by InitialNames includes the names of every operand that is evaluated at the start position (all alternatives; sequence items up to and including the first non-nullable one; the operand of action, label, ?, *, +, & and !; both operands of recovery; the name of a rule reference), and Nullable is constant true for predicates, ?, *, code blocks and throw, any-of for choice and recovery, all-of for sequence, the operand's for action and label, the rule's for a reference (false when unknown), emptiness for literals. Also decided: nullable flags are computed before the first-graph, every rule's InitialNames feeds the graph, members of non-trivial SCCs and self-loops are marked, and buildParser returns the left-recursion error before anything is written when support is off. Not decided: Tarjan / cycle enumeration correctness, left recursion created dynamically through throw/recover handlers, the run-time consequence."
	r.Assumptions = []string{"StronglyConnectedComponents computes SCCs (tested by the repository's unit tests on fixed graphs)"}
	r.Rule("C07-i", "InitialNames of each kind includes, on every path, the InitialNames of every operand evaluated at the start position (table in DESIGN.md §3 C07)")
	r.Rule("C07-n", "NullableVisit / IsNullable of each kind return the value required by the table (constant, any-of, all-of, operand's) and keep the stored flag equal to the returned value")
	r.Rule("C07-v", "IsNullable reads flags that only NullableVisit stores, and InitialNames consults IsNullable of sequence items: therefore NullableVisit of a kind must visit (call NullableVisit on) every operand whose InitialNames the kind's own InitialNames includes, on every path — a constant result or a short-circuit must not skip the visit")
	r.Rule("C07-r", "Rule.NullableVisit is the cycle cut of the nullable pass: a rule that is being visited answers false without descending; otherwise Visited is set before and cleared after the visit of the rule's expression, whose answer is stored in Nullable and returned")
	r.Rule("C07-e", "error discipline of the detection pipeline: every call in package builder to a function of that package returning an error (PrepareGrammar, ComputeLeftRecursives, findLeader, FindCyclesInSCC) is followed by `if err != nil { return … }` with exactly that condition, so an analysis that gave up never reads as 'no left recursion'")
	r.Rule("C07-b", "buildParser: `if !b.supportLeftRecursion && haveLeftRecursion { return error wrapping ErrHaveLeftRecursion }` precedes every write; PrepareGrammar = ComputeNullables then ComputeLeftRecursives; MakeFirstGraph stores rule.InitialNames() for every rule; ComputeLeftRecursives marks every member of an SCC of size > 1 and every self-loop and reports haveLeftRecursion for both")
	r.Rule("C07-h", "direct left recursion is a cycle too: every loop over the components returned by StronglyConnectedComponents that tells components apart by their size also consults the self-loop graph[v][v] of a single-rule component (C08-g under this property)")
	sccSelfLoops(c, "C07-h")

	g := c.G()
	if g == nil {
		return
	}
	r.Rule("C07-j", "the marks of the left-recursion analysis have one owner: Visited and Nullable are stored only by the NullableVisit methods, LeftRecursive and Leader only by ComputeLeftRecursives (or a helper only they call), and no composite literal sets them; Rule.NullableVisit reads a set Visited as `being visited` and answers `not nullable` without looking, so a mark left behind by another pass hides every path through that rule")
	analysisMarkOwners(c, g, "C07-j")
	r.Rule("C07-w", "a sequence's visit stops at its first non-nullable item (the dual of C07-v): on every path of SeqExpr.NullableVisit on which an item answered false the loop is left at once - the items behind it are not at the start position, and visiting them lets the cycle cut of Rule.NullableVisit fire on consuming recursion and freeze a provisional `not nullable` in a rule reference")
	c07ThrowStandsForHandlers(c, "C07-x")
	seqVisitStopsAtFirstNonNullable(c, g, "C07-w")
	kinds, _ := c.exprKinds()
	if len(kinds) != 18 {
		r.Fatal("expected 18 expression kinds, found %d", len(kinds))
	}
	ap := g.Pkg("ast")
	// table
	type spec struct {
		initial []string // operand fields whose InitialNames must be included ("*Alternatives" = every element, "<Exprs" = prefix rule, "=Name" = the reference name)
		null    string   // true | false | falseOrChild | any:<field> | all:<field> | child | or:<f1>,<f2> | rule | emptyLit | emptyClass
	}
	table := map[string]spec{
		"ChoiceExpr": {[]string{"*Alternatives"}, "any:Alternatives"}, "SeqExpr": {[]string{"<Exprs"}, "all:Exprs"},
		"ActionExpr": {[]string{"Expr"}, "child"}, "LabeledExpr": {[]string{"Expr"}, "child"},
		"ZeroOrOneExpr": {[]string{"Expr"}, "true"}, "ZeroOrMoreExpr": {[]string{"Expr"}, "true"}, "OneOrMoreExpr": {[]string{"Expr"}, "falseOrChild"},
		"AndExpr": {[]string{"Expr"}, "true"}, "NotExpr": {[]string{"Expr"}, "true"},
		"RecoveryExpr": {[]string{"Expr", "RecoverExpr"}, "or:Expr,RecoverExpr"}, "RuleRefExpr": {[]string{"=Name"}, "rule"},
		"AndCodeExpr": {nil, "true"}, "NotCodeExpr": {nil, "true"}, "StateCodeExpr": {nil, "true"}, "ThrowExpr": {nil, "true"},
		"LitMatcher": {nil, "emptyLit"}, "CharClassMatcher": {nil, "emptyClass"}, "AnyMatcher": {nil, "false"},
	}
	for _, k := range kinds {
		sp, ok := table[k.Name]
		if !ok {
			r.Unk("C07-i", "G.ast."+k.Name+":in-table", "", "ast/ast.go", "kind not in the obligation table")
			continue
		}
		in := load.FuncDecl(ap, k.Name, "InitialNames")
		nv := load.FuncDecl(ap, k.Name, "NullableVisit")
		isn := load.FuncDecl(ap, k.Name, "IsNullable")
		if in == nil || nv == nil || isn == nil {
			r.Fatal("methods of ast.%s not found", k.Name)
			continue
		}
		c07InitialN(c, g, k.Name, in, sp.initial)
		c07NullableN(c, g, k.Name, nv, isn, sp.null)
		c07VisitsN(c, g, k.Name, nv, sp.initial)
	}
	r.MinRule("C07-i", 18)
	r.MinRule("C07-n", 18)
	c07RuleVisit(c, g)
	c07Wiring(c, g)
	c07Errors(c, g)
	r.Rule("C07-c", "the nullable pass visits every rule: ComputeNullables calls NullableVisit, unconditionally, in a loop over the rule map or over a list holding exactly its keys (a walk from the entry rule alone stops at the first non-nullable item of a sequence and leaves the rules behind it unvisited)")
	everyRuleVisited(c, g, "C07-c")
	r.Rule("C07-g", "the first-invocation graph is read-only for its consumers (see C08-f): a component search or leader search that prunes the shared graph hides the self-loops and cycles of the components handled later from the detection")
	firstGraphReadOnly(c, "C07-g")
}

func recvName(fd *ast.FuncDecl) string {
	if fd.Recv != nil && len(fd.Recv.List) == 1 && len(fd.Recv.List[0].Names) == 1 {
		return fd.Recv.List[0].Names[0].Name
	}
	return ""
}

// includesAll: fd's result includes every key of the map produced by call expression text `call`,
// unconditionally w.r.t. the statement list `scope` (the function body or a loop body).
func includesAll(fd *ast.FuncDecl, scope *ast.BlockStmt, call string) (bool, string) {
	// form 1: the function returns the call directly
	for _, st := range scope.List {
		if rs, ok := st.(*ast.ReturnStmt); ok && len(rs.Results) == 1 && nospace(rs.Results[0]) == call {
			return true, "returned directly"
		}
	}
	// form 2: range over the call inserting every key into the returned map
	ret := ""
	ast.Inspect(fd.Body, func(n ast.Node) bool {
		if rs, ok := n.(*ast.ReturnStmt); ok && len(rs.Results) == 1 {
			if id, ok := rs.Results[0].(*ast.Ident); ok {
				ret = id.Name
			}
		}
		return true
	})
	for _, st := range scope.List {
		rs, ok := st.(*ast.RangeStmt)
		if !ok || nospace(rs.X) != call || rs.Key == nil || len(rs.Body.List) != 1 {
			continue
		}
		as, ok := rs.Body.List[0].(*ast.AssignStmt)
		if !ok || len(as.Lhs) != 1 {
			continue
		}
		if nospace(as.Lhs[0]) == ret+"["+nospace(rs.Key)+"]" && ret != "" {
			return true, "every key inserted into " + ret
		}
	}
	return false, ""
}

func c07Initial(c *Ctx, g *load.G, kind string, fd *ast.FuncDecl, need []string) {
	r := c.R
	recv := recvName(fd)
	construct := "G.ast." + kind + ".InitialNames"
	w := g.Where(fd.Pos())
	if len(need) == 0 {
		r.Ok("C07-i", construct, "", w, "leaf kind: no operand evaluated at the start position")
		return
	}
	var bad, good []string
	for _, n := range need {
		switch {
		case strings.HasPrefix(n, "="):
			// the reference's own name
			okRef := false
			ast.Inspect(fd.Body, func(nd ast.Node) bool {
				if rs, ok := nd.(*ast.ReturnStmt); ok && len(rs.Results) == 1 {
					if cl, ok := rs.Results[0].(*ast.CompositeLit); ok {
						for _, e := range cl.Elts {
							if kv, ok := e.(*ast.KeyValueExpr); ok && nospace(kv.Key) == recv+"."+n[1:]+".Val" {
								okRef = true
							}
						}
					}
				}
				return true
			})
			if okRef {
				good = append(good, "contains the referenced name")
			} else {
				bad = append(bad, "the referenced rule name is not in the result")
			}
		case strings.HasPrefix(n, "*") || strings.HasPrefix(n, "<"):
			field := n[1:]
			var loop *ast.RangeStmt
			for _, st := range fd.Body.List {
				if rs, ok := st.(*ast.RangeStmt); ok && nospace(rs.X) == recv+"."+field && rs.Value != nil {
					loop = rs
				}
			}
			if loop == nil {
				bad = append(bad, "no range over "+recv+"."+field)
				continue
			}
			elem := nospace(loop.Value)
			ok, how := includesAll(fd, loop.Body, elem+".InitialNames()")
			if !ok {
				bad = append(bad, "the loop over "+field+" does not include every element's InitialNames unconditionally")
				continue
			}
			// exits of the loop
			var exits []string
			incPos := loop.Body.Pos()
			for _, st := range loop.Body.List {
				if rs, ok := st.(*ast.RangeStmt); ok && nospace(rs.X) == elem+".InitialNames()" {
					incPos = rs.Pos()
				}
			}
			ast.Inspect(loop.Body, func(nd ast.Node) bool {
				switch x := nd.(type) {
				case *ast.BranchStmt:
					gs := guardsOf(loop.Body, x.Pos())
					exits = append(exits, fmt.Sprintf("%s under [%s] %s", x.Tok, strings.Join(gs, ";"), map[bool]string{true: "after", false: "BEFORE"}[x.Pos() > incPos]))
				case *ast.ReturnStmt:
					exits = append(exits, "return inside loop")
				}
				return true
			})
			if strings.HasPrefix(n, "*") {
				if len(exits) > 0 {
					bad = append(bad, "the loop over "+field+" can stop early: "+strings.Join(exits, ", "))
				} else {
					good = append(good, "all "+field+" ("+how+")")
				}
			} else {
				okExit := len(exits) == 1 && exits[0] == "break under [!"+elem+".IsNullable()] after"
				if len(exits) == 0 {
					okExit = true // includes all items: a sound over-approximation
				}
				if !okExit {
					bad = append(bad, "the loop over "+field+" must include items up to and including the first non-nullable one; exits: "+strings.Join(exits, ", "))
				} else {
					good = append(good, "prefix of "+field+" through the first non-nullable item ("+how+")")
				}
			}
		default:
			ok, how := includesAll(fd, fd.Body, recv+"."+n+".InitialNames()")
			if ok {
				good = append(good, n+" ("+how+")")
			} else {
				bad = append(bad, "operand "+n+" is evaluated at the start position but its InitialNames are not included in the result")
			}
		}
	}
	if len(bad) > 0 {
		r.Bad("C07-i", construct, "", w, strings.Join(bad, "; "))
	} else {
		r.Ok("C07-i", construct, "", w, strings.Join(good, "; "))
	}
}

func returnsOf(fd *ast.FuncDecl) []*ast.ReturnStmt {
	var out []*ast.ReturnStmt
	ast.Inspect(fd.Body, func(n ast.Node) bool {
		if _, ok := n.(*ast.FuncLit); ok {
			return false
		}
		if rs, ok := n.(*ast.ReturnStmt); ok {
			out = append(out, rs)
		}
		return true
	})
	return out
}

func c07Nullable(c *Ctx, g *load.G, kind string, nv, isn *ast.FuncDecl, want string) {
	r := c.R
	recv := recvName(nv)
	recvI := recvName(isn)
	construct := "G.ast." + kind + ".Nullable"
	w := g.Where(nv.Pos())
	var bad []string
	allReturn := func(fd *ast.FuncDecl, lit string) bool {
		rs := returnsOf(fd)
		if len(rs) == 0 {
			return false
		}
		for _, x := range rs {
			if len(x.Results) != 1 || nospace(x.Results[0]) != lit {
				return false
			}
		}
		return true
	}
	// stored flag: every `return <lit>` in NullableVisit is directly preceded by recv.Nullable = <lit> when the type has the field
	hasField := false
	ast.Inspect(nv.Body, func(n ast.Node) bool {
		if as, ok := n.(*ast.AssignStmt); ok && nospace(as.Lhs[0]) == recv+".Nullable" {
			hasField = true
		}
		return true
	})
	storedOK := func() bool {
		okAll := true
		ast.Inspect(nv.Body, func(n ast.Node) bool {
			blk, ok := n.(*ast.BlockStmt)
			if !ok {
				return true
			}
			for i, st := range blk.List {
				rs, ok := st.(*ast.ReturnStmt)
				if !ok || len(rs.Results) != 1 {
					continue
				}
				val := nospace(rs.Results[0])
				if val == recv+".Nullable" {
					continue
				}
				if i == 0 {
					okAll = false
					continue
				}
				as, ok := blk.List[i-1].(*ast.AssignStmt)
				if !ok || nospace(as.Lhs[0]) != recv+".Nullable" || nospace(as.Rhs[0]) != val {
					okAll = false
				}
			}
			return true
		})
		return okAll
	}
	isnReturnsStored := allReturn(isn, recvI+".Nullable")
	switch {
	case want == "true" || want == "false":
		if !allReturn(nv, want) {
			bad = append(bad, "NullableVisit must return "+want+" on every path")
		}
		if !allReturn(isn, want) {
			bad = append(bad, "IsNullable must return "+want)
		}
	case want == "falseOrChild":
		okF := allReturn(nv, "false") && allReturn(isn, "false")
		okC := allReturn(nv, recv+".Expr.NullableVisit(rules)") && allReturn(isn, recvI+".Expr.IsNullable()")
		if !okF && !okC {
			bad = append(bad, "expected constant false or the operand's nullability in both methods")
		}
	case want == "child":
		okDirect := allReturn(nv, recv+".Expr.NullableVisit(rules)") && (allReturn(isn, recvI+".Expr.IsNullable()"))
		okStored := false
		if hasField {
			set := false
			ast.Inspect(nv.Body, func(n ast.Node) bool {
				if as, ok := n.(*ast.AssignStmt); ok && nospace(as.Lhs[0]) == recv+".Nullable" && nospace(as.Rhs[0]) == recv+".Expr.NullableVisit(rules)" {
					set = true
				}
				return true
			})
			okStored = set && allReturn(nv, recv+".Nullable") && isnReturnsStored
		}
		if !okDirect && !okStored {
			bad = append(bad, "nullability must be the operand's (NullableVisit of Expr), stored and returned consistently")
		}
	case strings.HasPrefix(want, "any:") || strings.HasPrefix(want, "all:"):
		field := want[4:]
		isAny := strings.HasPrefix(want, "any:")
		var loop *ast.RangeStmt
		for _, st := range nv.Body.List {
			if rs, ok := st.(*ast.RangeStmt); ok && nospace(rs.X) == recv+"."+field && rs.Value != nil {
				loop = rs
			}
		}
		if loop == nil {
			bad = append(bad, "no range over "+field)
			break
		}
		elem := nospace(loop.Value)
		wantCond, inLoopRet, finalRet := elem+".NullableVisit(rules)", "true", "false"
		if !isAny {
			wantCond, inLoopRet, finalRet = "!"+elem+".NullableVisit(rules)", "false", "true"
		}
		okLoop := len(loop.Body.List) == 1
		if okLoop {
			is, ok := loop.Body.List[0].(*ast.IfStmt)
			okLoop = ok && nospace(is.Cond) == wantCond && is.Else == nil && len(is.Body.List) >= 1
			if okLoop {
				rs, ok := is.Body.List[len(is.Body.List)-1].(*ast.ReturnStmt)
				okLoop = ok && len(rs.Results) == 1 && nospace(rs.Results[0]) == inLoopRet
			}
		}
		last, okLast := nv.Body.List[len(nv.Body.List)-1].(*ast.ReturnStmt)
		if !okLoop || !okLast || nospace(last.Results[0]) != finalRet {
			bad = append(bad, fmt.Sprintf("expected %s-of over %s: `if %s { …; return %s }` in the loop and `return %s` after it", map[bool]string{true: "any", false: "all"}[isAny], field, wantCond, inLoopRet, finalRet))
		}
		if hasField && (!storedOK() || !isnReturnsStored) {
			bad = append(bad, "the stored Nullable flag is not kept equal to the returned value (IsNullable would disagree with NullableVisit)")
		}
	case strings.HasPrefix(want, "or:"):
		fs := strings.Split(want[3:], ",")
		expr := recv + "." + fs[0] + ".NullableVisit(rules)||" + recv + "." + fs[1] + ".NullableVisit(rules)"
		set := false
		ast.Inspect(nv.Body, func(n ast.Node) bool {
			if as, ok := n.(*ast.AssignStmt); ok && nospace(as.Lhs[0]) == recv+".Nullable" && nospace(as.Rhs[0]) == expr {
				set = true
			}
			return true
		})
		if !(set && allReturn(nv, recv+".Nullable") && isnReturnsStored) && !allReturn(nv, expr) {
			bad = append(bad, "expected "+expr)
		}
	case want == "rule":
		// rules[name] lookup; unknown => false; else the rule's NullableVisit
		txt := ""
		ast.Inspect(nv.Body, func(n ast.Node) bool {
			switch x := n.(type) {
			case *ast.AssignStmt:
				txt += nospace(x.Lhs[0]) + "=" + nospace(x.Rhs[0]) + ";"
			case *ast.ReturnStmt:
				txt += "return " + nospace(x.Results[0]) + ";"
			case *ast.IfStmt:
				txt += "if " + nospace(x.Cond) + ";"
			}
			return true
		})
		if !(strings.Contains(txt, "=rules["+recv+".Name.Val];") && strings.Contains(txt, "if !ok;") && strings.Contains(txt, recv+".Nullable=item.NullableVisit(rules);") && isnReturnsStored && storedOK()) {
			bad = append(bad, "expected lookup of the referenced rule, false when unknown, the rule's NullableVisit otherwise ["+txt+"]")
		}
	case want == "emptyLit":
		if !(allReturn(isn, "len("+recvI+".Val)==0") && (allReturn(nv, recv+".IsNullable()") || allReturn(nv, "len("+recv+".Val)==0"))) {
			bad = append(bad, "a literal is nullable iff its value is empty")
		}
	case want == "emptyClass":
		okFalse := allReturn(isn, "false") && allReturn(nv, "false")
		okEmpty := allReturn(isn, "len("+recvI+".Chars)==0&&len("+recvI+".Ranges)==0&&len("+recvI+".UnicodeClasses)==0") && (allReturn(nv, recv+".IsNullable()"))
		if !okFalse && !okEmpty {
			bad = append(bad, "a class is never nullable (or only when it has no members)")
		}
	}
	sort.Strings(bad)
	if len(bad) > 0 {
		r.Bad("C07-n", construct, "", w, strings.Join(bad, "; "))
	} else {
		r.Ok("C07-n", construct, "", w, "matches table entry "+want)
	}
}

func c07Wiring(c *Ctx, g *load.G) {
	r := c.R
	bp := g.Pkg("builder")
	// buildParser
	fd := load.FuncDecl(bp, "builder", "buildParser")
	if fd == nil {
		r.Fatal("anchor builder.buildParser not found")
		return
	}
	// on the normalised paths: whatever writes or accepts has established "no left recursion, or support is on";
	// the path with left recursion and no support returns the dedicated error and writes nothing
	b := recvName(fd)
	V := "res0(PrepareGrammar(" + firstParam(fd) + "))"
	S := b + ".supportLeftRecursion"
	ok := true
	nReject := 0
	for _, p := range c.builderNorm().normPaths(fd) {
		writes := p.evIndex("call", 0, func(s string) bool { return strings.HasPrefix(s, b+".write") }) >= 0
		ret := lastReturn(p)
		if writes || ret == b+".err" || ret == "nil" {
			if !(p.holds("!"+V) || p.holds(S) || p.holds("!"+V+"||"+S)) {
				ok = false
			}
			continue
		}
		if p.holds(V) && p.holds("!"+S) {
			if strings.Contains(ret, "ErrHaveLeftRecursion") {
				nReject++
			} else {
				ok = false
			}
		}
	}
	ok = ok && nReject > 0
	r.Check(ok, "C07-b", "G.builder.buildParser:reject-before-write", "", g.Where(fd.Pos()), "left-recursion error returned before anything is written when support is off", "the rejection of left recursion does not precede the first write (or is missing)")
	// PrepareGrammar order
	pg := load.FuncDecl(bp, "", "PrepareGrammar")
	if pg != nil {
		var seq []string
		for _, ce := range callsIn(pg.Body) {
			if n := callName(ce); n == "ComputeNullables" || n == "ComputeLeftRecursives" {
				seq = append(seq, n)
			}
		}
		// on the normalised paths (a helper that builds the map is expanded): every rule of the grammar is stored under
		// its name, unconditionally, in a loop over the rule list
		allRules := false
		for _, p := range c.builderNorm().without("ComputeNullables", "ComputeLeftRecursives").normPaths(pg) {
			for i, e := range p {
				if e.Kind != "loop" || !strings.HasPrefix(e.Text, "range ") || !strings.HasSuffix(e.Text, ".Rules") {
					continue
				}
				list := strings.TrimPrefix(e.Text, "range ")
				for _, b := range p[i+1:] {
					if b.Kind == "endloop" || b.Kind == "+" {
						break
					}
					if b.Kind == "set" && strings.Contains(b.Text, "["+list+"[#1].Name.Val]="+list+"[#1]") {
						allRules = true
					}
				}
			}
		}
		r.Check(strings.Join(seq, ",") == "ComputeNullables,ComputeLeftRecursives" && allRules, "C07-b", "G.builder.PrepareGrammar:nullables-before-first-graph", "", g.Where(pg.Pos()), "all rules mapped by name; nullables, then left-recursives", "order is ["+strings.Join(seq, ",")+"], all rules mapped="+fmt.Sprint(allRules))
	} else {
		r.Fatal("anchor builder.PrepareGrammar not found")
	}
	// MakeFirstGraph
	mg := load.FuncDecl(bp, "", "MakeFirstGraph")
	if mg != nil {
		edgesWhy, _ := c.firstGraphShape()
		r.Check(edgesWhy == "", "C07-b", "G.builder.MakeFirstGraph:edges=InitialNames", "", g.Where(mg.Pos()), "graph[rule] = rule.InitialNames() for every rule", edgesWhy)
	} else {
		r.Fatal("anchor builder.MakeFirstGraph not found")
	}
	// ComputeLeftRecursives marks
	cl := load.FuncDecl(bp, "", "ComputeLeftRecursives")
	if cl != nil {
		lr := c.leftRecMarks()
		var why []string
		for _, k := range []string{"members", "selfloop", "report", "clears"} {
			why = append(why, lr[k]...)
		}
		r.Check(len(why) == 0, "C07-b", "G.builder.ComputeLeftRecursives:marks", "", g.Where(cl.Pos()), "members of SCCs with more than one rule and self-loops are marked and reported", strings.Join(why, "; "))
	} else {
		r.Fatal("anchor builder.ComputeLeftRecursives not found")
	}
}

// c07Visits: NullableVisit must visit every operand that InitialNames includes (see rule C07-v).
func c07Visits(c *Ctx, g *load.G, kind string, nv *ast.FuncDecl, need []string) {
	r := c.R
	recv := recvName(nv)
	construct := "G.ast." + kind + ".NullableVisit:visits-operands"
	w := g.Where(nv.Pos())
	var bad []string
	n := 0
	// a visit call is unconditional when it is not under an if, not the right operand of || / &&, and not after an
	// earlier return in a loop
	unconditionalCall := func(scope *ast.BlockStmt, call string) bool {
		found := false
		var stack []ast.Node
		ast.Inspect(scope, func(nd ast.Node) bool {
			if nd == nil {
				stack = stack[:len(stack)-1]
				return true
			}
			stack = append(stack, nd)
			ce, ok := nd.(*ast.CallExpr)
			if !ok || nospace(ce) != call {
				return true
			}
			okPath := true
			for i := len(stack) - 2; i >= 0; i-- {
				switch p := stack[i].(type) {
				case *ast.BinaryExpr:
					if (p.Op == token.LOR || p.Op == token.LAND) && contains(p.Y, ce.Pos()) {
						okPath = false
					}
				case *ast.IfStmt:
					if contains(p.Body, ce.Pos()) || (p.Else != nil && contains(p.Else, ce.Pos())) {
						okPath = false
					}
				}
			}
			if okPath {
				found = true
			}
			return true
		})
		return found
	}
	for _, f := range need {
		switch {
		case strings.HasPrefix(f, "="):
			continue
		case strings.HasPrefix(f, "*"):
			// every element visited: a range over the field whose body calls elem.NullableVisit unconditionally and
			// never leaves the loop early
			n++
			field := f[1:]
			var loop *ast.RangeStmt
			for _, st := range nv.Body.List {
				if rs, ok := st.(*ast.RangeStmt); ok && nospace(rs.X) == recv+"."+field && rs.Value != nil {
					loop = rs
				}
			}
			if loop == nil {
				bad = append(bad, "no loop visiting "+field)
				continue
			}
			elem := nospace(loop.Value)
			early := false
			ast.Inspect(loop.Body, func(nd ast.Node) bool {
				switch x := nd.(type) {
				case *ast.ReturnStmt:
					early = true
				case *ast.BranchStmt:
					if x.Tok == token.BREAK {
						early = true
					}
				}
				return true
			})
			visits := false
			ast.Inspect(loop.Body, func(nd ast.Node) bool {
				if ce, ok := nd.(*ast.CallExpr); ok && nospace(ce) == elem+".NullableVisit(rules)" {
					visits = true
				}
				return true
			})
			if !visits || early {
				bad = append(bad, "the loop over "+field+" stops at the first nullable element: the remaining elements are never visited, their stored Nullable flags stay false, and InitialNames of a sequence inside them stops too early (A <- &'q' / B A; B <- 'y'? is accepted)")
			}
		case strings.HasPrefix(f, "<"):
			continue // a sequence only needs the items up to the first non-nullable one, which its loop visits in order
		default:
			n++
			if !unconditionalCall(nv.Body, recv+"."+f+".NullableVisit(rules)") {
				bad = append(bad, "operand "+f+" is not visited on every path: the Nullable flags stored inside it stay false, so InitialNames of a sequence inside it stops too early (A <- (B A)? \"x\"; B <- \"y\"? is accepted)")
			}
		}
	}
	if n == 0 {
		return
	}
	sort.Strings(bad)
	if len(bad) > 0 {
		r.Bad("C07-v", construct, "", w, strings.Join(bad, "; "))
	} else {
		r.Ok("C07-v", construct, "", w, fmt.Sprintf("%d operands visited on every path", n))
	}
}

// c07Errors: no error of the detection pipeline is dropped or conditionally ignored. Decided on the normalised paths
// of every builder function that calls one of the pipeline's fallible functions: after the call, the first thing a
// path does is decide whether the error is nil, and on the non-nil side it returns a non-nil error without doing
// anything else.
func c07Errors(c *Ctx, g *load.G) {
	r := c.R
	bp := g.Pkg("builder")
	callees := []string{"PrepareGrammar", "ComputeLeftRecursives", "findLeader", "FindCyclesInSCC"}
	isCallee := map[string]int{} // name -> index of the error result
	for _, n := range callees {
		if fd := load.FuncDecl(bp, "", n); fd != nil && fd.Type.Results != nil {
			k := 0
			for _, f := range fd.Type.Results.List {
				m := len(f.Names)
				if m == 0 {
					m = 1
				}
				if nospace(f.Type) == "error" {
					isCallee[n] = k + m - 1
				}
				k += m
			}
		} else {
			r.Fatal("anchor builder.%s not found", n)
		}
	}
	// … and every other plain function of the package that returns an error and hands on the verdict of one of them
	// (a helper split off the pipeline): its callers have the same obligation
	for changed := true; changed; {
		changed = false
		for _, fd := range load.AllFuncDecls(bp) {
			if fd.Body == nil || fd.Recv != nil || fd.Type.Results == nil || strings.HasSuffix(g.Fset.Position(fd.Pos()).Filename, "_test.go") {
				continue
			}
			if _, known := isCallee[fd.Name.Name]; known {
				continue
			}
			k, ek := 0, -1
			for _, f := range fd.Type.Results.List {
				m := len(f.Names)
				if m == 0 {
					m = 1
				}
				if nospace(f.Type) == "error" {
					ek = k + m - 1
				}
				k += m
			}
			if ek < 0 {
				continue
			}
			for _, ce := range callsIn(fd.Body) {
				if _, ok := isCallee[callName(ce)]; ok {
					isCallee[fd.Name.Name] = ek
					callees = append(callees, fd.Name.Name)
					changed = true
					break
				}
			}
		}
	}
	nc := c.builderNorm().without(callees...)
	n := 0
	for _, fd := range load.AllFuncDecls(bp) {
		if fd.Body == nil || strings.HasSuffix(g.Fset.Position(fd.Pos()).Filename, "_test.go") {
			continue
		}
		direct := map[string]bool{}
		for _, ce := range callsIn(fd.Body) {
			if _, ok := isCallee[callName(ce)]; ok {
				direct[callName(ce)] = true
			}
		}
		if len(direct) == 0 {
			continue
		}
		bad := map[string][]string{}
		seen := map[string]bool{}
		for _, p := range nc.normPaths(fd) {
			for ic, e := range p {
				if e.Kind != "call" {
					continue
				}
				name := e.Text
				if k := strings.Index(name, "("); k > 0 {
					name = name[:k]
				}
				ek, ok := isCallee[name]
				if !ok || !direct[name] {
					continue
				}
				seen[name] = true
				E := fmt.Sprintf("res%d(%s)", ek, e.Text)
				// the first event after the call that is not the delivery of its results
				decided := ""
				k := ic + 1
				for ; k < len(p); k++ {
					if p[k].Kind == "set" && strings.Contains(p[k].Text, "=res") && strings.HasSuffix(p[k].Text, "("+e.Text+")") {
						continue
					}
					break
				}
				if k < len(p) && p[k].Kind == "+" && (p[k].Text == E+"!=nil" || p[k].Text == E+"==nil") {
					decided = p[k].Text
				}
				// a function whose only result is the error: the call itself is the value tested
				if decided == "" && ek == 0 && k < len(p) && p[k].Kind == "+" && (p[k].Text == e.Text+"!=nil" || p[k].Text == e.Text+"==nil") {
					decided = p[k].Text
				}
				if decided == "" && k < len(p) && p[k].Kind == "return" && p[k].Text == e.Text {
					// `return f(…)`: the results, error included, are handed on as they are; the caller's test is the
					// obligation of the caller (this function returns an error itself)
					continue
				}
				if decided == "" {
					what := "the path ends"
					if k < len(p) {
						what = "the path goes on with `" + abbreviate(p[k].Kind+" "+p[k].Text) + "`"
					}
					bad[name] = append(bad[name], "after the call "+what+" instead of testing its error")
					continue
				}
				if strings.HasSuffix(decided, "!=nil") {
					ret := ""
					for _, e2 := range p[k+1:] {
						switch e2.Kind {
						case "return":
							ret = e2.Text
						case "set":
							if dollarRe.FindString(e2.Text) == "" || !strings.HasPrefix(e2.Text, "$") {
								bad[name] = append(bad[name], "on the error path `"+abbreviate(e2.Text)+"` is stored")
							}
						case "call":
							if !strings.HasPrefix(e2.Text, "fmt.Errorf(") && !strings.HasPrefix(e2.Text, "errors.") {
								bad[name] = append(bad[name], "on the error path `"+abbreviate(e2.Text)+"` is called")
							}
						case "+":
							bad[name] = append(bad[name], "the error path depends on `"+abbreviate(e2.Text)+"`")
						}
					}
					parts := splitTop(ret, ",")
					if ret == "" || parts[len(parts)-1] == "nil" {
						bad[name] = append(bad[name], "the error path does not return a non-nil error (returns `"+ret+"`)")
					}
				}
			}
		}
		for name := range direct {
			n++
			construct := "G.builder." + fd.Name.Name + ":error-of-" + name
			if !seen[name] {
				r.Bad("C07-e", construct, "", g.Where(fd.Pos()), "no path through the call could be read")
				continue
			}
			r.Check(len(bad[name]) == 0, "C07-e", construct, "", g.Where(fd.Pos()), "every path tests the error right after the call and returns it when it is not nil",
				strings.Join(uniq(bad[name]), "; ")+": when the analysis gives up (e.g. no leader candidate) the other results are zero values, so the grammar reads as free of left recursion and is accepted")
		}
	}
	r.Min("C07-e error sites", 2, n)
}

// c07RuleVisit: the visited-flag protocol of Rule.NullableVisit (rule C07-r).
func c07RuleVisit(c *Ctx, g *load.G) {
	r := c.R
	fd := load.FuncDecl(g.Pkg("ast"), "Rule", "NullableVisit")
	if fd == nil || fd.Body == nil {
		r.Fatal("anchor ast.Rule.NullableVisit not found")
		return
	}
	rv := recvName(fd)
	arg := firstParam(fd)
	visit := rv + ".Expr.NullableVisit(" + arg + ")"
	var bad []string
	nCut, nVisit := 0, 0
	for _, p := range c.astNorm().normPaths(fd) {
		if of := p.otherFacts(rv + ".Visited"); len(of) > 0 {
			bad = append(bad, "the visit depends on `"+strings.Join(of, "`, `")+"`")
			continue
		}
		ret := lastReturn(p)
		switch {
		case p.holds(rv + ".Visited"):
			nCut++
			if p.hasCall(visit) {
				bad = append(bad, "a rule that is already being visited is visited again: the nullable pass does not terminate on a recursive grammar")
			}
			if ret != "false" {
				bad = append(bad, "a rule that is already being visited answers `"+ret+"` instead of false (a rule on its own left edge is considered non-nullable)")
			}
		case p.holds("!" + rv + ".Visited"):
			nVisit++
			iSet := p.evIndex("set", 0, func(s string) bool { return s == rv+".Visited=true" })
			iCall := p.evIndex("call", 0, func(s string) bool { return s == visit })
			iStore := p.evIndex("set", 0, func(s string) bool { return s == rv+".Nullable="+visit })
			iClr := p.evIndex("set", 0, func(s string) bool { return s == rv+".Visited=false" })
			switch {
			case iCall < 0 || iStore < 0 || iStore < iCall:
				bad = append(bad, "the rule's expression is not visited, or its answer is not stored in "+rv+".Nullable: rule references read a stale flag")
			case iSet < 0 || iSet > iCall:
				bad = append(bad, rv+".Visited is not set before the expression is visited: a recursive rule is visited without end")
			case iClr < 0 || iClr < iCall:
				bad = append(bad, rv+".Visited is not cleared after the visit: every later visit of the rule is taken for a cycle and answers false")
			}
			// the answer is the value of the visit: the stored flag, or the visit's result itself
			if !(ret == rv+".Nullable" && iStore >= 0 || ret == visit) {
				bad = append(bad, "the visit returns `"+ret+"` instead of the stored flag")
			}
		default:
			bad = append(bad, "a path does not test "+rv+".Visited")
		}
	}
	if nCut == 0 || nVisit == 0 {
		bad = append(bad, fmt.Sprintf("%d cycle-cut paths and %d visiting paths, expected at least one of each", nCut, nVisit))
	}
	r.Check(len(bad) == 0, "C07-r", "G.ast.Rule.NullableVisit:visited-protocol", "", g.Where(fd.Pos()), "Visited → false; else set, visit, store, clear, return the flag", strings.Join(uniq(bad), "; "))
}
