package rules

import (
	"fmt"
	"go/ast"
	"go/constant"
	"go/token"
	"sort"
	"strings"

	"golang.org/x/tools/go/packages"

	"pigeonverif/internal/load"
)

// ruleExprOfLiteral returns the expr: value of rule `name` in the g literal of the root package.
func ruleExprOfLiteral(root *packages.Package, name string) ast.Expr {
	var out ast.Expr
	for _, f := range root.Syntax {
		ast.Inspect(f, func(n ast.Node) bool {
			if out != nil {
				return false
			}
			cl, ok := n.(*ast.CompositeLit)
			if !ok {
				return true
			}
			if t := root.TypesInfo.TypeOf(cl); t == nil || namedOf(t) != "rule" {
				return true
			}
			nm := ""
			var e ast.Expr
			for _, el := range cl.Elts {
				if kv, ok := el.(*ast.KeyValueExpr); ok {
					switch nospace(kv.Key) {
					case "name":
						if tv, ok := root.TypesInfo.Types[kv.Value]; ok && tv.Value != nil {
							nm = constant.StringVal(tv.Value)
						}
					case "expr":
						e = kv.Value
					}
				}
			}
			if nm == name {
				out = e
			}
			return false
		})
	}
	return out
}

// litField returns the string value of key in a composite literal.
func litField(root *packages.Package, cl *ast.CompositeLit, key string) (string, bool) {
	for _, el := range cl.Elts {
		if kv, ok := el.(*ast.KeyValueExpr); ok && nospace(kv.Key) == key {
			if tv, ok := root.TypesInfo.Types[kv.Value]; ok && tv.Value != nil && tv.Value.Kind() == constant.String {
				return constant.StringVal(tv.Value), true
			}
		}
	}
	return "", false
}

func unwrapLit(e ast.Expr) *ast.CompositeLit {
	if ue, ok := e.(*ast.UnaryExpr); ok && ue.Op == token.AND {
		e = ue.X
	}
	cl, _ := e.(*ast.CompositeLit)
	return cl
}

// nodesOfType lists the runtime nodes of type tn under e.
func nodesOfType(root *packages.Package, e ast.Node, tn string) []*ast.CompositeLit {
	var out []*ast.CompositeLit
	ast.Inspect(e, func(n ast.Node) bool {
		if cl, ok := n.(*ast.CompositeLit); ok {
			if t := root.TypesInfo.TypeOf(cl); t != nil && namedOf(t) == tn {
				out = append(out, cl)
			}
		}
		return true
	})
	return out
}

// C03 — the grammar front-end accepts the documented syntax and builds the denoted AST.
func C03(c *Ctx) {
	r := c.R
	r.Technique = "structural rules on the front-end that actually runs (the syntax tree of pigeon.go: grammar literal and action methods) and on ast.CharClassMatcher.parse: position discipline of node constructors, rule-reference chain of the precedence levels, operator and escape tables"
	r.Explanation = "The statement as a whole (every spelling of every construct yields the denoted AST; print/re-parse round trip) is a behavioural statement about a PEG run on all texts and the repository has no printer: not decided. Three structural necessary conditions are decided on the generated front-end pigeon.go (its agreement with grammar/pigeon.peg and with the template is C20): (a) every ast.New* node constructor called from a grammar action receives c.astPos() (or a local initialised from it), and astPos copies line/col/offset in that order, so with C02-a every node is positioned at the first token of its match; (b) the rule-reference chain of the literal realises the documented binding strength recover < choice < action < sequence < label < prefix < suffix < primary: each level references the next tighter level and no looser one, and PrimaryExpr re-enters Expression only between \"(\" and \")\"; (c) RuleDefOp has exactly the four documented operators, the single-character escapes the grammar accepts are ones strconv.UnquoteChar decodes, and the digit counts CharClassMatcher.parse consumes per escape letter equal the digit references of the corresponding escape rules. Also decided on the grammar literal: the layout discipline (C03-f) and that a line break inside a comment ends a rule like any other line break (C03-g: it does not - finding F22). Not decided: acceptance of all layouts, comments and terminators beyond these clauses, decoded escape values, the round trip."
	r.Assumptions = []string{"C20-b/d tie pigeon.go to the template and to grammar/pigeon.peg", "C02-a: c.pos is the start of the match"}
	r.Rule("C03-a", "every call ast.New<Node>(pos, …) inside an on<Rule><n> method passes c.astPos() or a local whose only definition is c.astPos(); astPos returns ast.Pos{Line: c.pos.line, Col: c.pos.col, Off: c.pos.offset}")
	r.Rule("C03-b", "precedence chain Expression→RecoveryExpr→ChoiceExpr→ActionExpr→SeqExpr→LabeledExpr→PrefixedExpr→SuffixedExpr→PrimaryExpr: refs(level i) ∩ chain ⊆ {level i+1} and contains it; refs(PrimaryExpr) ∩ chain = {Expression}, between \"(\" and \")\"")
	r.Rule("C03-d", "operator-to-node mapping of the grammar actions: & → AndExpr, ! → NotExpr; ? → ZeroOrOneExpr, * → ZeroOrMoreExpr, + → OneOrMoreExpr; # → StateCodeExpr, & → AndCodeExpr, ! → NotCodeExpr; the operator rules accept exactly these characters; the operand / code block is stored in the constructed node; the recovery chain is built left-nested (Expr = chain so far)")
	r.Rule("C03-f", "layout: `__` is a repetition over white space, line ends and both comment forms; `_` (no line end) is referenced by EOS only; in every syntactic rule of the grammar literal (a rule that reaches `__`) any two items that can match next to each other - adjacent items of a sequence, skipping items that may match nothing, and consecutive iterations of a repetition - are separated by a layout reference")
	r.Rule("C03-h", "no speculative errors in the front-end grammar (errors returned by actions are never rolled back): (a) a rule referenced by the operand of an & or ! predicate from which an error-returning action is reachable is listed with the reason why the same text is read again by the same rule; (b) an alternative of an ordered choice that evaluates, at its first position, a rule whose action can return an error and can still fail afterwards starts with an & guard, unless no later alternative can start with the same token or the later alternative evaluates the same rule there")
	r.Rule("C03-i", "Go strings and rune literals inside code blocks are skipped as units whatever escapes they contain: in each quoted alternative of rule CodeStringLiteral the repetition between the quotes has a negated class that does not exclude the backslash, or an alternative that takes a backslash together with the character after it (otherwise \"}\\n\" falls back to character-by-character reading and its brace is counted)")
	r.Rule("C03-j", "decorations of grammar text are removed once: no call of strings.Trim / TrimLeft / TrimRight (which remove every occurrence of every character of a cut set) with a constant non-blank set in the front-end packages, except the listed ones whose operand cannot repeat the character - strings.TrimLeft(raw, \"^\") on the class text [^^a] removes the inversion marker and the literal caret behind it")
	r.Rule("C03-k", "CharClassMatcher.parse, extraction loop: a dash opens a range exactly on the paths where the member is '-', a plain member precedes it and a member follows it in the list being walked (the decoded member list): `[a-]`, `[-a]`, `[\\pL_-]` keep the dash as a plain member; the path also consults a local the loop updates where it appends to the range list (just-closed-a-range flag): a dash directly after a range is a plain member, it does not take the member before that range as a low end")
	r.Rule("C03-g", "any layout ends a rule: the alternative of EOS that ends a rule at a line end can pass over a comment that spans lines (it reaches MultiLineComment), since a line break inside a comment is a line break")
	r.Rule("C03-e", "CharClassMatcher.parse keeps every member: each iteration of the reading loop that obtained a rune appends to chars or UnicodeClasses, each iteration of the extraction loop appends to Chars or Ranges")
	r.Rule("C03-c", "RuleDefOp = {\"=\", \"<-\", U+2190, U+27F5}; SingleCharEscape ⊆ {a,b,f,n,r,t,v,\\}; CharClassMatcher.parse consumes x→2, u→4, U→8, octal→2 further digits, equal to the digit references of HexEscape / ShortUnicodeEscape / LongUnicodeEscape / OctalEscape")

	g := c.G()
	if g == nil {
		return
	}
	root := g.Pkg("")
	classParserKeepsEveryRune(c, "C03-e")
	classDashN(c, "C03-k")
	c03Cutsets(c, g)
	// ---- a
	nCalls := 0
	var bad []string
	for _, fd := range load.AllFuncDecls(root) {
		if load.RecvName(fd) != "current" || !strings.HasPrefix(fd.Name.Name, "on") || fd.Body == nil {
			continue
		}
		// locals defined from c.astPos()
		posVars := map[string]int{}
		defs := map[string]int{}
		ast.Inspect(fd.Body, func(n ast.Node) bool {
			if as, ok := n.(*ast.AssignStmt); ok {
				for i, l := range as.Lhs {
					if id, ok := l.(*ast.Ident); ok {
						defs[id.Name]++
						if i < len(as.Rhs) && nospace(as.Rhs[i]) == "c.astPos()" {
							posVars[id.Name]++
						}
					}
				}
			}
			return true
		})
		for _, ce := range callsIn(fd.Body) {
			cn := callName(ce)
			if !strings.HasPrefix(cn, "ast.New") || len(ce.Args) == 0 {
				continue
			}
			nCalls++
			a := nospace(ce.Args[0])
			ok := a == "c.astPos()" || (posVars[a] == 1 && defs[a] == 1)
			if !ok {
				bad = append(bad, fmt.Sprintf("%s: %s is positioned by %s in %s, not by the start of its match", g.Where(ce.Pos()), cn, a, fd.Name.Name))
			}
		}
	}
	// constructors called from plain helper functions of the front-end (written in the grammar's initializer and
	// called from the actions): the position is a parameter of the helper, and every action that calls the helper
	// passes c.astPos() (or a local defined from it) for that parameter
	isPosArg := func(in *ast.FuncDecl, a ast.Expr) bool {
		t := nospace(a)
		if t == "c.astPos()" {
			return true
		}
		nDef, nPos := 0, 0
		ast.Inspect(in.Body, func(n ast.Node) bool {
			if as, ok := n.(*ast.AssignStmt); ok {
				for i, l := range as.Lhs {
					if id, ok := l.(*ast.Ident); ok && id.Name == t {
						nDef++
						if i < len(as.Rhs) && nospace(as.Rhs[i]) == "c.astPos()" {
							nPos++
						}
					}
				}
			}
			return true
		})
		return nDef == 1 && nPos == 1
	}
	for _, h := range load.AllFuncDecls(root) {
		if h.Recv != nil || h.Body == nil || !strings.HasSuffix(g.Fset.Position(h.Pos()).Filename, "/pigeon.go") {
			continue
		}
		for _, ce := range callsIn(h.Body) {
			cn := callName(ce)
			if !strings.HasPrefix(cn, "ast.New") || len(ce.Args) == 0 {
				continue
			}
			nCalls++
			a := nospace(ce.Args[0])
			k, isParam := paramIndexByName(h, a)
			if !isParam || assignedBetween(h.Body, a, h.Body.Pos(), h.Body.End()) {
				bad = append(bad, fmt.Sprintf("%s: %s is positioned by %s in helper %s, which is not a position handed in by the action", g.Where(ce.Pos()), cn, a, h.Name.Name))
				continue
			}
			nSites := 0
			for _, fd := range load.AllFuncDecls(root) {
				if load.RecvName(fd) != "current" || !strings.HasPrefix(fd.Name.Name, "on") || fd.Body == nil {
					continue
				}
				for _, site := range callsIn(fd.Body) {
					if callName(site) != h.Name.Name || k >= len(site.Args) {
						continue
					}
					nSites++
					if !isPosArg(fd, site.Args[k]) {
						bad = append(bad, fmt.Sprintf("%s: %s hands %s to %s as the position of the node it builds, not the start of the match", g.Where(site.Pos()), fd.Name.Name, nospace(site.Args[k]), h.Name.Name))
					}
				}
			}
			if nSites == 0 {
				bad = append(bad, fmt.Sprintf("%s: helper %s builds a node but no grammar action calls it directly", g.Where(ce.Pos()), h.Name.Name))
			}
		}
	}
	sort.Strings(bad)
	r.Check(len(bad) == 0 && nCalls >= 25, "C03-a", "A.pigeon.go:node-constructors-use-astPos", "", "pigeon.go", fmt.Sprintf("%d constructor calls in grammar actions, all positioned by c.astPos()", nCalls), strings.Join(bad, "; "))
	ap := load.FuncDecl(root, "current", "astPos")
	okPos := false
	if ap != nil {
		// the value returned on the only path, locals inlined: ast.Pos{Line: c.pos.line, Col: c.pos.col, Off: c.pos.offset}
		rv := recvName(ap)
		paths := c.pkgNorm("").normPaths(ap)
		if len(paths) == 1 {
			ret := lastReturn(paths[0])
			if strings.HasPrefix(ret, "ast.Pos{") && strings.HasSuffix(ret, "}") {
				m := map[string]string{}
				for _, el := range splitTop(ret[len("ast.Pos{"):len(ret)-1], ",") {
					if k := indexTop(el, ":"); k > 0 {
						m[el[:k]] = el[k+1:]
					}
				}
				okPos = m["Line"] == rv+".pos.line" && m["Col"] == rv+".pos.col" && m["Off"] == rv+".pos.offset" && len(m) == 3
			}
		}
	}
	r.Check(okPos, "C03-a", "G.main.astPos:copies-line-col-offset", "", "main.go", "Line←line, Col←col, Off←offset", "astPos does not copy c.pos field by field in the documented pairing")
	// ---- b
	chain := []string{"Expression", "RecoveryExpr", "ChoiceExpr", "ActionExpr", "SeqExpr", "LabeledExpr", "PrefixedExpr", "SuffixedExpr", "PrimaryExpr"}
	inChain := map[string]int{}
	for i, n := range chain {
		inChain[n] = i
	}
	refs := ruleRefsOfLiteral(root)
	for i, lvl := range chain {
		rs, ok := refs[lvl]
		if !ok {
			r.Bad("C03-b", "A.pigeon.go:precedence-level "+lvl, "", "pigeon.go", "rule "+lvl+" not found in the grammar literal")
			continue
		}
		got := map[string]bool{}
		for _, x := range rs {
			if _, ok := inChain[x]; ok {
				got[x] = true
			}
		}
		var want string
		if i+1 < len(chain) {
			want = chain[i+1]
		} else {
			want = "Expression"
		}
		okLvl := len(got) == 1 && got[want]
		r.Check(okLvl, "C03-b", "A.pigeon.go:precedence-level "+lvl, "", "pigeon.go", lvl+" → "+want, fmt.Sprintf("%s references the precedence levels %v, expected exactly {%s}: binding strength would differ from the documented one", lvl, keysOf(got), want))
	}
	// PrimaryExpr: Expression only between "(" and ")"
	if pe := ruleExprOfLiteral(root, "PrimaryExpr"); pe != nil {
		okParen := false
		for _, sq := range nodesOfType(root, pe, "seqExpr") {
			var seq []string
			for _, el := range sq.Elts {
				kv, ok := el.(*ast.KeyValueExpr)
				if !ok || nospace(kv.Key) != "exprs" {
					continue
				}
				if list, ok := kv.Value.(*ast.CompositeLit); ok {
					for _, item := range list.Elts {
						cl := unwrapLit(item)
						if cl == nil {
							continue
						}
						switch namedOf(root.TypesInfo.TypeOf(cl)) {
						case "litMatcher":
							v, _ := litField(root, cl, "val")
							seq = append(seq, "lit:"+v)
						case "ruleRefExpr":
							v, _ := litField(root, cl, "name")
							seq = append(seq, "ref:"+v)
						case "labeledExpr":
							for _, rr := range nodesOfType(root, cl, "ruleRefExpr") {
								v, _ := litField(root, rr, "name")
								seq = append(seq, "ref:"+v)
							}
						}
					}
				}
			}
			j := strings.Join(seq, " ")
			if strings.Contains(j, "ref:Expression") {
				okParen = j == "lit:( ref:__ ref:Expression ref:__ lit:)"
			}
		}
		r.Check(okParen, "C03-b", "A.pigeon.go:PrimaryExpr-group", "", "pigeon.go", `Expression re-entered only as "(" __ Expression __ ")"`, "PrimaryExpr re-enters Expression outside a parenthesised group")
	}
	// ---- f
	c03Layout(c, root)
	c03Speculation(c, root)
	c03RecoveryMarkerNotLayout(c, root)
	// ---- d
	c03Operators(c, g)
	// ---- c
	if op := ruleExprOfLiteral(root, "RuleDefOp"); op != nil {
		var ops []string
		for _, l := range nodesOfType(root, op, "litMatcher") {
			v, _ := litField(root, l, "val")
			ops = append(ops, v)
		}
		sort.Strings(ops)
		r.Check(strings.Join(ops, "|") == "<-|=|←|⟵", "C03-c", "A.pigeon.go:RuleDefOp", "", "pigeon.go", "= <- ← ⟵", "rule-definition operators are "+strings.Join(ops, " "))
	} else {
		r.Fatal("rule RuleDefOp not found in pigeon.go")
	}
	if sc := ruleExprOfLiteral(root, "SingleCharEscape"); sc != nil {
		okSet := map[string]bool{"a": true, "b": true, "f": true, "n": true, "r": true, "t": true, "v": true, "\\": true}
		var extra []string
		n := 0
		for _, l := range nodesOfType(root, sc, "litMatcher") {
			v, _ := litField(root, l, "val")
			n++
			if !okSet[v] {
				extra = append(extra, v)
			}
		}
		for _, cm := range nodesOfType(root, sc, "charClassMatcher") {
			v, _ := litField(root, cm, "val")
			n++
			for _, ch := range strings.Trim(v, "[]") {
				if !okSet[string(ch)] {
					extra = append(extra, string(ch))
				}
			}
		}
		r.Check(len(extra) == 0 && n > 0, "C03-c", "A.pigeon.go:SingleCharEscape⊆UnquoteChar", "", "pigeon.go", "all accepted single-character escapes are decodable", "accepted escapes that strconv.UnquoteChar does not decode: "+strings.Join(extra, ","))
	} else {
		r.Fatal("rule SingleCharEscape not found in pigeon.go")
	}
	// class-specific single-character escapes (CharClassEscape minus the common ones) need their own case in parse():
	// strconv.UnquoteChar honours its quote argument only for ' and "
	if cce := ruleExprOfLiteral(root, "CharClassEscape"); cce != nil {
		var own []string
		for _, l := range nodesOfType(root, cce, "litMatcher") {
			if v, ok := litField(root, l, "val"); ok && len(v) == 1 && v != "p" {
				own = append(own, v)
			}
		}
		for _, ch := range own {
			okCase, why := classEscapeOwnCase(c, ch)
			r.Check(okCase, "C03-c", "G.ast.CharClassMatcher.parse:class-escape-\\"+ch, "", "ast/ast.go", "`\\"+ch+"` is decoded to the character itself by a dedicated case", why)
		}
		if len(own) == 0 {
			r.Fatal("CharClassEscape: no class-specific escape literal found")
		}
	}
	// digit counts
	countRefs := func(rule, digit string) int {
		e := ruleExprOfLiteral(root, rule)
		if e == nil {
			return -1
		}
		// first alternative only
		first := ast.Node(e)
		if cl := unwrapLit(e); cl != nil && namedOf(root.TypesInfo.TypeOf(cl)) == "choiceExpr" {
			for _, el := range cl.Elts {
				if kv, ok := el.(*ast.KeyValueExpr); ok && nospace(kv.Key) == "alternatives" {
					if list, ok := kv.Value.(*ast.CompositeLit); ok && len(list.Elts) > 0 {
						first = list.Elts[0]
					}
				}
			}
		}
		n := 0
		for _, rr := range nodesOfType(root, first, "ruleRefExpr") {
			if v, _ := litField(root, rr, "name"); v == digit {
				n++
			}
		}
		return n
	}
	consume := map[string]int{}
	for _, l := range []string{"x", "u", "U", "0", "1", "2", "3", "4", "5", "6", "7"} {
		if n, ok := classEscapeDigits(c, l); ok {
			consume[l] = n
		}
	}
	type dc struct {
		letter, rule, digit string
		offset              int
	}
	for _, d := range []dc{{"x", "HexEscape", "HexDigit", 0}, {"u", "ShortUnicodeEscape", "HexDigit", 0}, {"U", "LongUnicodeEscape", "HexDigit", 0}, {"0", "OctalEscape", "OctalDigit", 1}} {
		want := countRefs(d.rule, d.digit) - d.offset
		got, ok := consume[d.letter]
		r.Check(ok && got == want, "C03-c", "G.ast.CharClassMatcher.parse:digits-of-\\"+d.letter, "", "ast/ast.go", fmt.Sprintf("consumes %d further digits, as rule %s requires", got, d.rule),
			fmt.Sprintf("parse consumes %d further digits after \\%s but rule %s matches %d: class members would be decoded from the wrong characters", got, d.letter, d.rule, want))
	}
	for _, o := range []string{"1", "2", "3", "4", "5", "6", "7"} {
		if v, ok := consume[o]; !ok || v != consume["0"] {
			r.Bad("C03-c", "G.ast.CharClassMatcher.parse:digits-of-\\0", "", "ast/ast.go", "octal lead digits are not treated alike")
		}
	}
	c03Surrogates(c, g)
}

// c03Surrogates: a \u / \U escape denotes a code point; the surrogate halves U+D800..U+DFFF are not code points that a
// Go string can hold (they would silently become U+FFFD), so validateUnicodeEscape must reject exactly that closed
// interval (strconv.UnquoteChar rejects values above MaxRune and, for \u/\U, surrogates - the explicit test is the
// front-end's own statement of the rule and must not be narrower).
func c03Surrogates(c *Ctx, g *load.G) {
	r := c.R
	fd := load.FuncDecl(g.Pkg(""), "", "validateUnicodeEscape")
	if fd == nil || fd.Body == nil {
		r.Fatal("anchor main.validateUnicodeEscape not found")
		return
	}
	// what the function accepts, computed from its normalised paths: the code point the hex digits denote is compared
	// with constants and/or handed to a library function whose verdict is known; the accepted set must be exactly the
	// valid code points, U+0000..U+D7FF and U+E000..U+10FFFF
	univ := ivl{0, 1<<32 - 1}
	valid := ivset{{0, 0xD7FF}, {0xE000, 0x10FFFF}}
	var bad []string
	accepted, rejected := ivset{}, ivset{}
	paths := c.pkgNorm("").normPaths(fd)
	for _, p := range paths {
		// the decoded value: the first result of the library call that reads the digits
		v := ""
		for _, e := range p {
			if e.Kind == "call" && (strings.HasPrefix(e.Text, "strconv.UnquoteChar(") || strings.HasPrefix(e.Text, "strconv.ParseUint(") || strings.HasPrefix(e.Text, "strconv.ParseInt(")) {
				v = "res0(" + e.Text + ")"
			}
		}
		if v == "" {
			bad = append(bad, "a path does not decode the escape with strconv.UnquoteChar / ParseUint")
			continue
		}
		set := ivset{univ}
		undecided := ""
		for _, f := range p.facts() {
			fs := ivset{}
			known := true
			for _, d := range splitTop(f, "||") {
				if strings.HasPrefix(d, "(") && strings.HasSuffix(d, ")") && wholeCall("f"+d) {
					d = d[1 : len(d)-1]
				}
				ds := ivset{univ}
				for _, a := range splitTop(d, "&&") {
					a = strings.ReplaceAll(strings.ReplaceAll(a, "rune("+v+")", v), "int64("+v+")", v)
					switch {
					case strings.HasPrefix(a, "res3(strconv.UnquoteChar(") && strings.HasSuffix(a, "==nil"):
						ds = ds.intersect(valid) // strconv.UnquoteChar accepts exactly the valid runes
					case strings.HasPrefix(a, "res3(strconv.UnquoteChar(") && strings.HasSuffix(a, "!=nil"):
						ds = ds.intersect(valid.complement(univ))
					case strings.HasPrefix(a, "res1(strconv.Parse") && strings.HasSuffix(a, "==nil"):
						// up to eight hex digits always fit 32 bits
					case strings.HasPrefix(a, "res1(strconv.Parse") && strings.HasSuffix(a, "!=nil"):
						ds = ivset{}
					case a == "utf16.IsSurrogate("+v+")":
						ds = ds.intersect(ivset{{0xD800, 0xDFFF}})
					case a == "!utf16.IsSurrogate("+v+")":
						ds = ds.intersect(ivset{{0xD800, 0xDFFF}}.complement(univ))
					case a == "utf8.ValidRune("+v+")":
						ds = ds.intersect(valid)
					case a == "!utf8.ValidRune("+v+")":
						ds = ds.intersect(valid.complement(univ))
					default:
						as, ok := atomSet(a, v, univ)
						if !ok {
							if strings.Contains(a, v) {
								known = false
								undecided = a
							}
							continue
						}
						ds = ds.intersect(as)
					}
				}
				fs = fs.union(ds)
			}
			if known {
				set = set.intersect(fs)
			}
		}
		if undecided != "" {
			bad = append(bad, "the verdict depends on `"+abbreviate(undecided)+"`, which is not a comparison of the code point with a constant")
			continue
		}
		ret := splitTop(lastReturn(p), ",")
		if len(ret) == 2 && ret[1] == "nil" {
			accepted = accepted.union(set)
		} else {
			rejected = rejected.union(set)
		}
	}
	if len(paths) == 0 {
		bad = append(bad, "no paths")
	}
	if len(bad) == 0 {
		if !accepted.equal(valid) {
			bad = append(bad, "accepts "+accepted.String()+", expected exactly the valid code points "+valid.String()+" (the surrogate halves U+D800..U+DFFF and everything above U+10FFFF are rejected, nothing else)")
		}
		if both := accepted.intersect(rejected); len(both) > 0 {
			bad = append(bad, "the verdict for "+both.String()+" is not determined by the code point")
		}
	}
	r.Check(len(bad) == 0, "C03-c", "G.main.validateUnicodeEscape:rejects-surrogate-halves", "", g.Where(fd.Pos()), "accepts exactly U+0000..U+D7FF and U+E000..U+10FFFF", strings.Join(uniq(bad), "; "))
}

// c03Operators checks the operator -> constructor mapping of the prefix / suffix / semantic-predicate actions.
func c03Operators(c *Ctx, g *load.G) {
	r := c.R
	root := g.Pkg("")
	opsOf := func(rule string) []string {
		e := ruleExprOfLiteral(root, rule)
		var out []string
		if e == nil {
			return nil
		}
		for _, l := range nodesOfType(root, e, "litMatcher") {
			if v, ok := litField(root, l, "val"); ok {
				out = append(out, v)
			}
		}
		for _, cm := range nodesOfType(root, e, "charClassMatcher") {
			if v, ok := litField(root, cm, "val"); ok {
				for _, ch := range strings.Trim(v, "[]") {
					out = append(out, string(ch))
				}
			}
		}
		sort.Strings(out)
		return out
	}
	type spec struct {
		rule, opRule string
		want         map[string]string // operator -> constructor
		child        string            // field that must receive the operand
	}
	for _, sp := range []spec{
		{"PrefixedExpr", "PrefixedOp", map[string]string{"&": "NewAndExpr", "!": "NewNotExpr"}, "Expr"},
		{"SuffixedExpr", "SuffixedOp", map[string]string{"?": "NewZeroOrOneExpr", "*": "NewZeroOrMoreExpr", "+": "NewOneOrMoreExpr"}, "Expr"},
		{"SemanticPredExpr", "SemanticPredOp", map[string]string{"#": "NewStateCodeExpr", "&": "NewAndCodeExpr", "!": "NewNotCodeExpr"}, "Code"},
	} {
		fd := load.FuncDecl(root, "current", "on"+sp.rule+"2")
		if fd == nil {
			fd = load.FuncDecl(root, "current", "on"+sp.rule+"1")
		}
		// an action that hands operator and operand to a plain helper of the front-end: the mapping is the helper's
		if fd != nil && fd.Body != nil {
			hasCtor := false
			for _, ce := range callsIn(fd.Body) {
				if strings.HasPrefix(callName(ce), "ast.New") {
					hasCtor = true
				}
			}
			if !hasCtor {
				for _, ce := range callsIn(fd.Body) {
					if id, ok := ce.Fun.(*ast.Ident); ok {
						if h := load.FuncDecl(root, "", id.Name); h != nil && h.Body != nil && strings.HasSuffix(g.Fset.Position(h.Pos()).Filename, "/pigeon.go") {
							for _, hc := range callsIn(h.Body) {
								if strings.HasPrefix(callName(hc), "ast.New") {
									fd = h
								}
							}
						}
					}
				}
			}
		}
		construct := "A.pigeon.go:" + sp.rule + ":operator-mapping"
		if fd == nil {
			r.Unk("C03-d", construct, "", "pigeon.go", "action method of "+sp.rule+" not found")
			continue
		}
		ops := opsOf(sp.opRule)
		var wantOps []string
		for o := range sp.want {
			wantOps = append(wantOps, o)
		}
		sort.Strings(wantOps)
		var bad []string
		if strings.Join(ops, "") != strings.Join(wantOps, "") {
			bad = append(bad, "rule "+sp.opRule+" accepts {"+strings.Join(ops, " ")+"}, expected {"+strings.Join(wantOps, " ")+"}")
		}
		// branches: collect (explicit operator | "default") -> constructor
		got := map[string]string{}
		var explicit []string
		record := func(op string, body ast.Node) {
			for _, ce := range callsIn(body) {
				if cn := callName(ce); strings.HasPrefix(cn, "ast.New") {
					got[op] = strings.TrimPrefix(cn, "ast.")
				}
			}
		}
		var handleIf func(x *ast.IfStmt) bool
		handleIf = func(x *ast.IfStmt) bool {
			cond := canonCond(x.Cond, false)
			i := strings.Index(cond, `=="`)
			if i <= 0 || !strings.HasSuffix(cond, `"`) {
				return false
			}
			op := cond[i+3 : len(cond)-1]
			explicit = append(explicit, op)
			record(op, x.Body)
			// an else-if chain continues the mapping; a final else is the default branch
			switch e := x.Else.(type) {
			case *ast.IfStmt:
				if !handleIf(e) {
					record("default", e)
				}
			case *ast.BlockStmt:
				record("default", e)
			}
			return true
		}
		ast.Inspect(fd.Body, func(n ast.Node) bool {
			switch x := n.(type) {
			case *ast.IfStmt:
				if handleIf(x) {
					return false
				}
			case *ast.CaseClause:
				if x.List == nil {
					record("default", x)
				} else {
					for _, e := range x.List {
						op := strings.Trim(nospace(e), `"`)
						explicit = append(explicit, op)
						record(op, x)
					}
				}
				return false
			}
			return true
		})
		// statements after an if-return chain form the implicit default
		if _, ok := got["default"]; !ok {
			var tail []ast.Stmt
			for _, st := range fd.Body.List {
				switch st.(type) {
				case *ast.IfStmt, *ast.SwitchStmt:
					tail = nil
				default:
					tail = append(tail, st)
				}
			}
			for _, st := range tail {
				record("default", st)
			}
		}
		remaining := []string{}
		for _, o := range wantOps {
			seen := false
			for _, e := range explicit {
				if e == o {
					seen = true
				}
			}
			if !seen {
				remaining = append(remaining, o)
			}
		}
		for _, o := range explicit {
			if w, ok := sp.want[o]; !ok {
				bad = append(bad, "branch for unknown operator "+o)
			} else if got[o] != w {
				bad = append(bad, fmt.Sprintf("operator %s builds %s, expected %s", o, got[o], w))
			}
		}
		switch len(remaining) {
		case 0:
		case 1:
			if d, ok := got["default"]; !ok || d != sp.want[remaining[0]] {
				bad = append(bad, fmt.Sprintf("operator %s (default branch) builds %s, expected %s", remaining[0], got["default"], sp.want[remaining[0]]))
			}
		default:
			bad = append(bad, "operators without a branch of their own: "+strings.Join(remaining, " "))
		}
		// operand stored
		nStore := 0
		ast.Inspect(fd.Body, func(n ast.Node) bool {
			if as, ok := n.(*ast.AssignStmt); ok && strings.HasSuffix(nospace(as.Lhs[0]), "."+sp.child) {
				nStore++
			}
			return true
		})
		if nStore != len(sp.want) {
			bad = append(bad, fmt.Sprintf("%d of %d constructed nodes receive their %s", nStore, len(sp.want), sp.child))
		}
		sort.Strings(bad)
		r.Check(len(bad) == 0, "C03-d", construct, "", g.Where(fd.Pos()), fmt.Sprintf("%v", sp.want), strings.Join(bad, "; "))
	}
	// flag mapping: the i suffix alone decides IgnoreCase, ^ alone decides Inverted
	flagMapping(c, g, "C03-d")
	// recovery chain
	fd := load.FuncDecl(root, "current", "onRecoveryExpr1")
	if fd == nil {
		r.Unk("C03-d", "A.pigeon.go:RecoveryExpr:left-nested-chain", "", "pigeon.go", "action method not found")
		return
	}
	// the chain: acc := <first param>.(ast.Expression); for each recovery part: node := ast.NewRecoveryExpr(..);
	// node.Expr = acc; node.RecoverExpr = part[7]; node.Labels = part[3]; acc = node; return acc - checked on the
	// assignments with single-definition locals inlined, so that names and helper locals do not matter
	var bad []string
	var loop *ast.RangeStmt
	ast.Inspect(fd.Body, func(n ast.Node) bool {
		if rs, ok := n.(*ast.RangeStmt); ok && loop == nil {
			loop = rs
		}
		return true
	})
	if loop == nil || loop.Value == nil {
		bad = append(bad, "no loop over the recovery parts")
	} else {
		elem := nospace(loop.Value)
		node, acc := "", ""
		ast.Inspect(loop.Body, func(n ast.Node) bool {
			if as, ok := n.(*ast.AssignStmt); ok && len(as.Lhs) == 1 && len(as.Rhs) == 1 {
				if ce, ok := as.Rhs[0].(*ast.CallExpr); ok && callName(ce) == "ast.NewRecoveryExpr" {
					node = nospace(as.Lhs[0])
				}
			}
			return true
		})
		ast.Inspect(loop.Body, func(n ast.Node) bool {
			if as, ok := n.(*ast.AssignStmt); ok && len(as.Lhs) == 1 && len(as.Rhs) == 1 && as.Tok == token.ASSIGN && node != "" && nospace(as.Rhs[0]) == node {
				acc = nospace(as.Lhs[0])
			}
			return true
		})
		if node == "" || acc == "" {
			bad = append(bad, "no node built by ast.NewRecoveryExpr that becomes the chain built so far")
		} else {
			inl := inlineLocals(fd, map[string]bool{acc: true, node: true, elem: true})
			fields := map[string]string{}
			ast.Inspect(loop.Body, func(n ast.Node) bool {
				if as, ok := n.(*ast.AssignStmt); ok && len(as.Lhs) == 1 && len(as.Rhs) == 1 && strings.HasPrefix(nospace(as.Lhs[0]), node+".") {
					fields[strings.TrimPrefix(nospace(as.Lhs[0]), node+".")] = inl(as.Rhs[0])
				}
				return true
			})
			want := map[string]string{"Expr": acc, "RecoverExpr": elem + ".([]any)[7].(ast.Expression)", "Labels": elem + ".([]any)[3].([]ast.FailureLabel)"}
			for f, w := range want {
				if fields[f] != w {
					bad = append(bad, "the new node's "+f+" is "+fields[f]+", expected "+w)
				}
			}
			// initial value and result
			first := firstParam(fd)
			okInit, okRet := false, false
			ast.Inspect(fd.Body, func(n ast.Node) bool {
				switch x := n.(type) {
				case *ast.AssignStmt:
					if len(x.Lhs) == 1 && nospace(x.Lhs[0]) == acc && x.Pos() < loop.Pos() && inl(x.Rhs[0]) == first+".(ast.Expression)" {
						okInit = true
					}
				case *ast.ReturnStmt:
					if len(x.Results) == 2 && nospace(x.Results[0]) == acc && x.Pos() > loop.End() {
						okRet = true
					}
				}
				return true
			})
			if !okInit || !okRet {
				bad = append(bad, fmt.Sprintf("chain starts from the guarded expression=%t, the chain is returned=%t", okInit, okRet))
			}
		}
	}
	r.Check(len(bad) == 0, "C03-d", "A.pigeon.go:RecoveryExpr:left-nested-chain", "", g.Where(fd.Pos()), "each //{…} wraps the chain built so far as its guarded expression", strings.Join(bad, "; "))
}

// flagMapping: the ignore-case suffix and the inversion prefix are mapped to the node flags unconditionally, in the
// generated front-end, in the bootstrap front-end and in the class decoder.
func flagMapping(c *Ctx, g *load.G, rule string) {
	r := c.R
	root := g.Pkg("")
	// generated front-end: <node>.IgnoreCase = <label of "i"?> != nil
	if fd := load.FuncDecl(root, "current", "onLitMatcher1"); fd != nil {
		var params []string
		for _, f := range fd.Type.Params.List {
			for _, nm := range f.Names {
				params = append(params, nm.Name)
			}
		}
		var got []string
		ast.Inspect(fd.Body, func(n ast.Node) bool {
			if as, ok := n.(*ast.AssignStmt); ok && strings.HasSuffix(nospace(as.Lhs[0]), ".IgnoreCase") {
				got = append(got, nospace(as.Rhs[0]))
			}
			return true
		})
		ok := len(got) == 1 && len(params) == 2 && got[0] == params[1]+"!=nil"
		r.Check(ok, rule, "A.pigeon.go:LitMatcher:ignore-case-suffix", "", g.Where(fd.Pos()), "IgnoreCase = (the i suffix is present)", fmt.Sprintf("IgnoreCase is assigned %v: the flag no longer follows the i suffix alone (the bootstrap front-end sets it whenever the suffix is present)", got))
	} else {
		r.Unk(rule, "A.pigeon.go:LitMatcher:ignore-case-suffix", "", "pigeon.go", "action onLitMatcher1 not found")
	}
	// bootstrap front-end: ignore := strings.HasSuffix(p.tok.lit, "i"); lit.IgnoreCase = ignore
	if bp := g.Pkg("bootstrap"); bp != nil {
		// whichever function of the bootstrap parser builds the literal node: on each of its normalised paths the flag
		// stored is "the literal token ends in i" (either spelling of the suffix test)
		okB := false
		detail := "no store to the IgnoreCase flag of a literal node found"
		nStores := 0
		for _, fd := range load.AllFuncDecls(bp) {
			if fd.Body == nil || strings.HasSuffix(g.Fset.Position(fd.Pos()).Filename, "_test.go") {
				continue
			}
			stores := false
			ast.Inspect(fd.Body, func(n ast.Node) bool {
				if as, ok := n.(*ast.AssignStmt); ok {
					for _, l := range as.Lhs {
						if se, ok := l.(*ast.SelectorExpr); ok && se.Sel.Name == "IgnoreCase" && namedOf(bp.TypesInfo.TypeOf(se.X)) == "LitMatcher" {
							stores = true
						}
					}
				}
				return true
			})
			if !stores {
				continue
			}
			T := ""
			if fd.Recv != nil {
				T = recvName(fd) + ".tok.lit"
			} else if fd.Type.Params != nil {
				// a plain function that is handed the token: every caller passes the parser's current token
				for k, pf := range fd.Type.Params.List {
					if nospace(pf.Type) != "Token" || len(pf.Names) != 1 {
						continue
					}
					T = pf.Names[0].Name + ".lit"
					for _, cf := range load.AllFuncDecls(bp) {
						if cf.Body == nil || cf.Recv == nil {
							continue
						}
						for _, ce := range callsIn(cf.Body) {
							if id, ok := ce.Fun.(*ast.Ident); ok && id.Name == fd.Name.Name && k < len(ce.Args) && nospace(ce.Args[k]) != recvName(cf)+".tok" {
								T = ""
							}
						}
					}
				}
			}
			if T == "" {
				detail = "by " + fd.Name.Name + ", which does not work on the parser's current token"
				continue
			}
			forms := map[string]bool{`strings.HasSuffix(` + T + `,"i")`: true, "len(" + T + ")>0&&" + T + "[len(" + T + ")-1]=='i'": true, `res1(strings.CutSuffix(` + T + `,"i"))`: true}
			okAll := true
			for _, p := range c.pkgNorm("bootstrap").normPaths(fd) {
				for i, e := range p {
					if e.Kind == "set" && strings.Contains(e.Text, ".IgnoreCase=") {
						nStores++
						v := e.Text[strings.Index(e.Text, ".IgnoreCase=")+len(".IgnoreCase="):]
						// a flag carried in a local (the named result of a helper that takes the suffix off): on this path
						// it holds true exactly where the suffix test succeeded, false (or its zero value) where it failed
						if dollarRe.FindString(v) == v && v != "" {
							if d, k := lastSet(p[:i], v); k >= 0 {
								v = d
							}
						}
						if v == "true" || v == "false" || v == "zero" {
							agrees := false
							for f := range forms {
								if v == "true" && p[:i].holds(f) || v != "true" && p[:i].holds("!"+f) {
									agrees = true
								}
							}
							if agrees {
								continue
							}
						}
						if !forms[v] {
							okAll = false
							detail = v
						}
					}
				}
			}
			okB = okAll && nStores > 0
		}
		r.Check(okB, rule, "A.bootstrap/parser.go:LitMatcher:ignore-case-suffix", "", "bootstrap/parser.go", "IgnoreCase = (the literal token ends in i)", "IgnoreCase is assigned "+detail)
	}
	// class decoder
	classFlagsN(c, rule)
}

// classParserKeepsEveryRune: CharClassMatcher.parse turns the text of a class into Chars, Ranges and UnicodeClasses
// in two loops. Rule: every iteration of the reading loop that obtained a rune stores something (a character or a
// Unicode class name), and every iteration of the range-extraction loop stores its rune into Chars or Ranges (or
// turns the previous character into a range start). No rune value - U+FFFD in particular, which is a legitimate
// member and the way invalid bytes are matched - may be skipped.
func classParserKeepsEveryRune(c *Ctx, rule string) { classKeepsEveryRuneN(c, rule) }
