package rules

import (
	"fmt"
	"go/ast"
	"strings"

	"pigeonverif/internal/variants"
)

// Rolled-back errors and the memo table (C11-i / C08-i / C06-l, finding F28). The leader of a left-recursive group
// discards what its final, non-extending growth attempt did: the state store is restored and the error list is cut
// back to the snapshot taken after the last successful attempt. The memo entries made during that attempt - of inner
// leaders unconditionally, of ordinary rules and expressions under Memoize(true) - are not: they keep answering for
// the positions the discarded attempt visited. An action that ran there and reported an error is then never run
// again when the same rule matches at the same position as part of the final parse, and its error, cut from the list,
// is not reported at all.
//
// The rule: a store that cuts the error list back to a snapshot (`*p.errs = <anything but an append to it>`) outside
// newParser is accompanied, in the same statement list, by an invalidation of the memo table (delete / clear /
// re-initialisation of p.memo, directly or in a parser method called there).
func rolledBackErrorsVsMemo(c *Ctx, v *variants.Variant, rule string) {
	r := c.R
	if !strings.Contains(v.Text, "p.memo") {
		return
	}
	invalidates := func(n ast.Node, depth int) bool { return false }
	invalidates = func(n ast.Node, depth int) bool {
		found := false
		ast.Inspect(n, func(m ast.Node) bool {
			switch x := m.(type) {
			case *ast.CallExpr:
				switch callName(x) {
				case "delete", "clear", "maps.DeleteFunc":
					if len(x.Args) > 0 && strings.HasPrefix(nospace(x.Args[0]), "p.memo") {
						found = true
					}
				default:
					if sel, ok := x.Fun.(*ast.SelectorExpr); ok && nospace(sel.X) == "p" && depth < 2 {
						if fd := v.Func("parser", sel.Sel.Name); fd != nil && fd.Body != nil && invalidates(fd.Body, depth+1) {
							found = true
						}
					}
				}
			case *ast.AssignStmt:
				for _, l := range x.Lhs {
					if nospace(l) == "p.memo" {
						found = true
					}
				}
			}
			return !found
		})
		return found
	}
	for _, fd := range v.Funcs() {
		if fd.Body == nil || fd.Name.Name == "newParser" {
			continue
		}
		var lists [][]ast.Stmt
		ast.Inspect(fd.Body, func(n ast.Node) bool {
			switch x := n.(type) {
			case *ast.BlockStmt:
				lists = append(lists, x.List)
			case *ast.CaseClause:
				lists = append(lists, x.Body)
			case *ast.CommClause:
				lists = append(lists, x.Body)
			}
			return true
		})
		k := 0
		for _, list := range lists {
			for _, st := range list {
				as, ok := st.(*ast.AssignStmt)
				if !ok || len(as.Lhs) != 1 || nospace(as.Lhs[0]) != "*p.errs" {
					continue
				}
				rhs := nospace(as.Rhs[0])
				if strings.HasPrefix(rhs, "append(*p.errs,") {
					continue
				}
				k++
				construct := "T." + fd.Name.Name + ":rolled-back-errors-leave-no-memo-entries"
				if k > 1 {
					construct += fmt.Sprintf("#%d", k)
				}
				inv := false
				for _, s2 := range list {
					if invalidates(s2, 0) {
						inv = true
					}
				}
				r.Check(inv, rule, construct, v.Name, v.Where(as.Pos()), "the memo entries made since the snapshot are invalidated where the error list is cut back",
					"the error list is cut back to "+rhs+" while the memo entries made since that snapshot stay: a rule that ran an error-reporting action during the discarded attempt answers from the memo table when it matches at the same position in the final parse - the action is not run again and its error, cut from the list, is never reported")
			}
		}
	}
}
