package rules

// C20-n — the three front-ends decode string literals alike: the value of a literal node is what strconv.Unquote makes
// of the literal's text (double-quoted, single-quoted and back-quoted forms alike - for the back-quoted form that
// includes dropping carriage returns), or the empty string where Unquote reported an error. A front-end that takes a
// quote form apart by hand builds, for some spelling, another matcher than the other two (seed C20-agent19: the value
// of a raw string sliced out between the back quotes keeps a lone CR that Unquote drops).

import (
	"fmt"
	"go/ast"
	"go/parser"
	"go/token"
	"path/filepath"
	"sort"
	"strings"

	"pigeonverif/internal/load"
)

func literalDecodingAgreement(c *Ctx, rule string) {
	r := c.R
	r.Rule(rule, "the three front-ends decode string literals alike: on every path on which a front-end builds a literal matcher, the value handed to ast.NewLitMatcher is the first result of strconv.Unquote (all three quote forms go through it: escapes, and carriage returns dropped from back-quoted text), or the empty string on a path where Unquote reported an error")
	g := c.G()
	if g == nil {
		return
	}
	repo := load.Repo()
	type src struct {
		name  string
		decls []*ast.FuncDecl
		nc    *nctx
	}
	var srcs []src
	for _, it := range []struct{ name, path string }{
		{"pigeon.go", filepath.Join(repo, "pigeon.go")},
		{"bootstrap_pigeon.go", filepath.Join(repo, "bootstrap/cmd/bootstrap-pigeon/bootstrap_pigeon.go")},
	} {
		f, err := parser.ParseFile(token.NewFileSet(), it.path, nil, 0)
		if err != nil {
			r.Fatal("%s: %s does not parse: %v", rule, it.name, err)
			return
		}
		var decls, all []*ast.FuncDecl
		for _, d := range f.Decls {
			if fd, ok := d.(*ast.FuncDecl); ok && fd.Body != nil {
				// the action methods only: the runtime part of the file is the template's business
				if fd.Recv != nil && len(fd.Recv.List) == 1 && strings.HasSuffix(nospace(fd.Recv.List[0].Type), "current") {
					all = append(all, fd)
					if len(callsNamed(fd.Body, "ast.NewLitMatcher")) > 0 {
						decls = append(decls, fd)
					}
				}
			}
		}
		srcs = append(srcs, src{name: it.name, decls: decls, nc: newNctx(all)})
	}
	if bp := g.Pkg("bootstrap"); bp != nil {
		var decls []*ast.FuncDecl
		for _, fd := range load.AllFuncDecls(bp) {
			if fd.Body == nil || strings.HasSuffix(g.Fset.Position(fd.Pos()).Filename, "_test.go") {
				continue
			}
			if len(callsNamed(fd.Body, "ast.NewLitMatcher")) > 0 {
				decls = append(decls, fd)
			}
		}
		srcs = append(srcs, src{name: "bootstrap/parser.go", decls: decls, nc: c.pkgNorm("bootstrap")})
	} else {
		r.Fatal("%s: package bootstrap not loaded", rule)
		return
	}
	for _, s := range srcs {
		var bad []string
		n := 0
		for _, fd := range s.decls {
			for _, p := range s.nc.normPaths(fd) {
				for i, e := range p {
					if e.Kind != "call" || !strings.HasPrefix(e.Text, "ast.NewLitMatcher(") || !wholeCall(e.Text) {
						continue
					}
					args := splitTop(e.Text[len("ast.NewLitMatcher("):len(e.Text)-1], ",")
					if len(args) != 2 {
						continue
					}
					n++
					v := args[1]
					if dollarRe.FindString(v) == v && v != "" {
						if d, k := lastSet(p[:i], v); k >= 0 {
							v = d
						}
					}
					switch {
					case strings.HasPrefix(v, "res0(strconv.Unquote(") && wholeCall(v):
					case v == `""`:
						failed := false
						for _, f := range p[:i].facts() {
							if strings.HasPrefix(f, "res1(strconv.Unquote(") && strings.HasSuffix(f, "!=nil") {
								failed = true
							}
						}
						if !failed {
							bad = append(bad, fd.Name.Name+": the literal gets the empty value on a path on which strconv.Unquote did not fail")
						}
					default:
						bad = append(bad, fd.Name.Name+": the value of the literal node is "+abbreviate(v)+", not what strconv.Unquote makes of the literal's text")
					}
				}
			}
		}
		sort.Strings(bad)
		r.Check(len(bad) == 0 && n > 0, rule, "A."+s.name+":literal-values-through-strconv.Unquote", "", s.name,
			fmt.Sprintf("%d constructions of a literal matcher, each from strconv.Unquote (or empty after its error)", n),
			fmt.Sprintf("%d constructions; %s: for some spelling of a literal (a back-quoted literal with a carriage return, an escape) this front-end builds another matcher than the other two", n, strings.Join(uniq(bad), "; ")))
	}
}

func callsNamed(n ast.Node, name string) []*ast.CallExpr {
	var out []*ast.CallExpr
	for _, ce := range callsIn(n) {
		if nospace(ce.Fun) == name {
			out = append(out, ce)
		}
	}
	return out
}
