package rules

import (
	"fmt"
	"go/ast"
	"sort"
	"strings"

	"pigeonverif/internal/absint"
	"pigeonverif/internal/variants"
)

// absVariant caches the abstract interpretation of every evaluator of one variant.
type absVariant struct {
	V   *variants.Variant
	In  *absint.Interp
	Res map[string]*absint.Result
}

func (c *Ctx) abs(v *variants.Variant) *absVariant {
	if c.absCache == nil {
		c.absCache = map[string]*absVariant{}
	}
	if a, ok := c.absCache[v.Name]; ok {
		return a
	}
	in, err := absint.New(v)
	if err != nil {
		c.R.Fatal("absint %s: %v", v.Name, err)
		c.absCache[v.Name] = nil
		return nil
	}
	a := &absVariant{V: v, In: in, Res: map[string]*absint.Result{}}
	states := 0
	for _, n := range in.Evaluators() {
		fd := v.Func("parser", n)
		if fd == nil || fd.Body == nil {
			c.R.Fatal("variant %s: evaluator %s has no body", v.Name, n)
			continue
		}
		res := in.Run(fd)
		a.Res[n] = res
		states += res.States
	}
	c.absCache[v.Name] = a
	if m, ok := c.R.Analysed["abstract_states_explored"].(int); ok {
		c.R.Analysed["abstract_states_explored"] = m + states
	} else {
		c.R.Analysed["abstract_states_explored"] = states
	}
	return a
}

// allAbs returns the abstract interpretation of all semantic variants.
func (c *Ctx) allAbs() []*absVariant {
	var out []*absVariant
	for _, v := range c.SemanticVariants() {
		if a := c.abs(v); a != nil {
			out = append(out, a)
		}
	}
	return out
}

// kindFuncs are the 18 per-kind evaluators; wrappers are the remaining evaluators.
var kindFuncs = []string{"parseActionExpr", "parseAndCodeExpr", "parseAndExpr", "parseAnyMatcher", "parseCharClassMatcher",
	"parseChoiceExpr", "parseLabeledExpr", "parseLitMatcher", "parseNotCodeExpr", "parseNotExpr", "parseOneOrMoreExpr",
	"parseRecoveryExpr", "parseRuleRefExpr", "parseSeqExpr", "parseStateCodeExpr", "parseThrowExpr", "parseZeroOrMoreExpr", "parseZeroOrOneExpr"}

var predicateFuncs = map[string]bool{"parseAndExpr": true, "parseNotExpr": true, "parseAndCodeExpr": true, "parseNotCodeExpr": true}

func isKindFunc(n string) bool {
	for _, k := range kindFuncs {
		if k == n {
			return true
		}
	}
	return false
}

// sortedNames returns the evaluator names of a variant in sorted order.
func (a *absVariant) sortedNames() []string {
	var ns []string
	for n := range a.Res {
		ns = append(ns, n)
	}
	sort.Strings(ns)
	return ns
}

func isMemoExit(e *absint.Exit) bool { return strings.HasPrefix(e.State.Pt, "memo:") }

// where renders the position of an exit.
func (a *absVariant) where(e *absint.Exit, fd *ast.FuncDecl) string {
	if e.Pos.IsValid() {
		return a.V.Where(e.Pos)
	}
	return a.V.Where(fd.Pos())
}

// eventsOf filters events by kind.
func eventsOf(e *absint.Exit, kind string) []absint.Event {
	var out []absint.Event
	for _, ev := range e.State.Ev {
		if ev.Kind == kind {
			out = append(out, ev)
		}
	}
	return out
}

func evString(e *absint.Exit) string {
	var s []string
	for _, ev := range e.State.Ev {
		s = append(s, ev.String())
	}
	return strings.Join(s, " ")
}

// undecidedExits reports exits whose path contained a statement without transfer function.
func (c *Ctx) undecidedExits(rule string, a *absVariant, fn string) bool {
	res := a.Res[fn]
	bad := false
	for _, e := range append(append([]*absint.Exit{}, res.Exits...), res.Panics...) {
		if len(e.State.Und) > 0 {
			bad = true
			c.R.Unk(rule, "T."+fn+":analysable", a.V.Name, a.where(e, res.Fn), strings.Join(e.State.Und, "; "))
		}
	}
	if !bad {
		c.R.Ok(rule, "T."+fn+":analysable", a.V.Name, a.V.Where(res.Fn.Pos()), fmt.Sprintf("%d abstract states, %d exits, every statement has a transfer function", res.States, len(res.Exits)))
	}
	return !bad
}
