package rules

import (
	"fmt"
	"go/ast"
	"go/constant"
	"regexp"
	"strconv"
	"strings"

	"golang.org/x/tools/go/packages"

	"pigeonverif/internal/load"
)

// How a comma-separated list text is built, recognised on a normalised path in its two idioms: a buffer filled in a
// loop (separator before every element but the first) and strings.Join over the list or over a list mapped in a loop.

type joinDesc struct {
	List   string // the ranged list
	Sep    string // separator literal (quoted)
	Elem   string // element text with the list element written @
	Suffix string // literal appended when the result is non-empty ("" if none)
	OK     bool
	Why    string
}

var joinRe = regexp.MustCompile(`^strings\.Join\((.+),("(?:[^"\\]|\\.)*")\)$`)

// describeJoined explains how the text passed to an emission at event index upto was built.
func describeJoined(p bpath, upto int, text string) joinDesc {
	d := joinDesc{}
	suffix := ""
	t := text
	// strings.Join(...) [+ "suffix"]
	if i := indexTop(t, "+"); i > 0 && strings.HasPrefix(t[i+1:], `"`) {
		suffix = t[i+1:]
		t = t[:i]
		if strings.HasPrefix(t, "(") && strings.HasSuffix(t, ")") && indexTop(t[1:len(t)-1], ")") < 0 {
			t = t[1 : len(t)-1]
		}
	}
	if m := joinRe.FindStringSubmatch(t); m != nil {
		d.Sep, d.Suffix = m[2], suffix
		list := m[1]
		// the list itself, or a local list filled from another list in a loop
		if dollarRe.FindString(list) == list {
			for i := 0; i < upto; i++ {
				if p[i].Kind != "loop" || !strings.HasPrefix(p[i].Text, "range ") {
					continue
				}
				src := strings.TrimPrefix(p[i].Text, "range ")
				for j := i + 1; j < upto && p[j].Kind != "endloop"; j++ {
					if p[j].Kind != "set" {
						continue
					}
					for _, pre := range []string{list + "[#1]=", list + "=append(" + list + ","} {
						if strings.HasPrefix(p[j].Text, pre) {
							v := strings.TrimSuffix(strings.TrimPrefix(p[j].Text, pre), ")")
							if pre == list+"[#1]=" {
								v = strings.TrimPrefix(p[j].Text, pre)
							}
							d.List, d.Elem, d.OK = src, strings.ReplaceAll(v, src+"[#1]", "@"), true
						}
					}
				}
			}
			if !d.OK {
				// a list local that was never filled on this path: the empty list
				d.List, d.Elem, d.OK = list, "@", true
			}
			return d
		}
		d.List, d.Elem, d.OK = list, "@", true
		return d
	}
	// <buffer>.String(): the writes since the last Reset
	if strings.HasSuffix(text, ".String()") {
		buf := strings.TrimSuffix(text, ".String()")
		start := 0
		for i := 0; i < upto; i++ {
			if p[i].Kind == "call" && p[i].Text == buf+".Reset()" {
				start = i + 1
			}
		}
		depth := 0
		for i := start; i < upto; i++ {
			e := p[i]
			switch e.Kind {
			case "loop":
				depth++
				if depth == 1 && strings.HasPrefix(e.Text, "range ") {
					d.List = strings.TrimPrefix(e.Text, "range ")
				}
			case "endloop":
				depth--
			case "call":
				w := ""
				switch {
				case strings.HasPrefix(e.Text, buf+".WriteString("):
					w = strings.TrimSuffix(strings.TrimPrefix(e.Text, buf+".WriteString("), ")")
				case strings.HasPrefix(e.Text, "fmt.Fprintf(&"+buf+","):
					w = "fmt.Sprintf(" + strings.TrimPrefix(e.Text, "fmt.Fprintf(&"+buf+",")
				default:
					continue
				}
				facts := p[start:i].facts()
				// a separator and the element written by one call (`", " + elem`, or two consecutive writes read as one)
				if depth >= 1 && d.List != "" && strings.HasPrefix(w, `"`) && (containsStr(facts, "#1>0") || containsStr(facts, "#1!=0")) {
					if k := indexTop(w, "+"); k > 0 && isStringLit(w[:k]) && strings.Contains(w[k+1:], d.List+"[#1]") {
						d.Sep = w[:k]
						d.Elem = strings.ReplaceAll(w[k+1:], d.List+"[#1]", "@")
						// the separator literal may have been joined with the literal the element text starts with
						// (`", "` then `"stack["`): the separator is what the first element's text does not have
						if lit, err := strconv.Unquote(w[:k]); err == nil && strings.HasPrefix(lit, ", ") && len(lit) > 2 {
							d.Sep = `", "`
							d.Elem = strconv.Quote(lit[2:]) + "+" + d.Elem
						}
						continue
					}
				}
				switch {
				case depth >= 1 && d.List != "" && strings.Contains(w, d.List+"[#1]"):
					// a text made from the element the loop stands at (whatever literal it starts with)
					d.Elem = strings.ReplaceAll(w, d.List+"[#1]", "@")
				case depth >= 1 && strings.HasPrefix(w, `"`) && (containsStr(facts, "#1>0") || containsStr(facts, "#1!=0")):
					d.Sep = w
				case depth >= 1 && strings.HasPrefix(w, `"`):
					d.Why = "a separator is written without the test that the element is not the first"
				case depth >= 1:
					d.Elem = strings.ReplaceAll(w, d.List+"[#1]", "@")
				case depth == 0 && strings.HasPrefix(w, `"`):
					if containsStr(facts, buf+".Len()>0") || containsStr(facts, buf+".Len()!=0") {
						d.Suffix = w
					} else {
						d.Why = "the suffix " + w + " is written without the test that the list is non-empty"
					}
				}
			}
		}
		d.OK = d.Why == ""
		return d
	}
	d.Why = "the list text " + text + " is not built by a recognised idiom (buffer loop or strings.Join)"
	return d
}

// writeFuncSemantics: name, parameter list and argument list of the emitted method pair.
func writeFuncSemantics(c *Ctx) (probs map[string][]string) {
	probs = map[string][]string{}
	g := c.G()
	fd := load.FuncDecl(g.Pkg("builder"), "builder", "writeFunc")
	if fd == nil {
		probs["lists"] = []string{"writeFunc not found"}
		return
	}
	b := recvName(fd)
	ro := c.writeFuncRoles()
	if ro.Why != "" {
		probs["lists"] = []string{ro.Why}
		probs["pair"] = []string{ro.Why}
		return
	}
	funcIx, code, callTpl, funcTpl := ro.Names[ro.Ix], ro.Names[ro.Code], ro.Names[ro.Call], ro.Names[ro.Def]
	add := func(k, s string) { probs[k] = append(probs[k], s) }
	top := b + ".argsStack[len(" + b + ".argsStack)-1]"
	paths := c.builderNorm().normPaths(fd)
	nPair := 0
	sawSepP, sawSepA := false, false
	for _, p := range paths {
		if p.holds(code + "==nil") {
			if p.hasCall(b + ".writelnf(") {
				add("pair", "a nil code block emits a method")
			}
			continue
		}
		if contradictoryFacts(p) {
			continue // e.g. the label scope exists for the first list and not for the second: not a real path
		}
		i1 := p.evIndex("call", 0, func(t string) bool { return strings.HasPrefix(t, b+".writelnf("+funcTpl+",") })
		i2 := p.evIndex("call", 0, func(t string) bool { return strings.HasPrefix(t, b+".writelnf("+callTpl+",") })
		if i1 < 0 || i2 < 0 || i1 > i2 {
			add("pair", "the method definition and its call stub are not both emitted (definition first)")
			continue
		}
		nPair++
		a1 := splitTop(strings.TrimSuffix(strings.TrimPrefix(p[i1].Text, b+".writelnf("), ")"), ",")
		a2 := splitTop(strings.TrimSuffix(strings.TrimPrefix(p[i2].Text, b+".writelnf("), ")"), ",")
		if len(a1) != 5 || len(a2) != 3 {
			add("pair", fmt.Sprintf("unexpected emissions %v %v", a1, a2))
			continue
		}
		if a1[1] != b+".recvName" {
			add("pair", "the receiver of the method is "+a1[1])
		}
		name := b + ".funcName(" + funcIx + ")"
		if a1[2] != name || a2[1] != name {
			add("name", "method named "+a1[2]+" / "+a2[1]+", expected "+name+" in both")
		}
		dp := describeJoined(p, i1, a1[3])
		da := describeJoined(p, i2, a2[2])
		for _, d := range []joinDesc{dp, da} {
			if !d.OK {
				add("lists", d.Why)
			}
		}
		if !dp.OK || !da.OK {
			continue
		}
		stack := b + ".argsStack"
		noScope := p.holds("len("+stack+")==0") || p.holds("len("+stack+")<1") || p.holds("len("+stack+")<=0") || p.holds("len("+stack+")-1<0")
		okList := func(l string) bool {
			return l == top || dollarRe.FindString(l) == l || l == "" || (l == "nil" && noScope)
		}
		if !okList(dp.List) || !okList(da.List) || (dp.List == top) != (da.List == top) {
			add("same-list", "parameter list ranges over "+dp.List+", argument list over "+da.List+", expected the innermost label scope "+top+" for both")
		}
		// on a path through the first element no separator is written; where one is written it is ", "
		if dp.List == top || dp.Sep != "" {
			if (dp.Sep != `", "` && dp.Sep != "") || dp.Elem != "@" {
				add("lists", "the parameter list is built with separator "+dp.Sep+" and element "+dp.Elem)
			}
			if dp.Sep == `", "` {
				sawSepP = true
			}
		}
		if da.List == top || da.Sep != "" {
			// the element text: stack[<the label, quoted as a Go string>] (fmt's %q and strconv.Quote agree on strings)
			okElem := da.Elem == "fmt.Sprintf(`stack[%q]`,@)" || da.Elem == `fmt.Sprintf("stack[%q]",@)` || da.Elem == `"stack["+strconv.Quote(@)+"]"`
			if (da.Sep != `", "` && da.Sep != "") || !okElem {
				add("lists", "the argument list is built with separator "+da.Sep+" and element "+da.Elem)
			}
			if da.Sep == `", "` {
				sawSepA = true
			}
		}
		// the type suffix of a non-empty parameter list
		if dp.List == top {
			nonEmptyKnown := p.holds("len("+top+")>0") || dp.Suffix != ""
			_ = nonEmptyKnown
			if dp.Suffix != "" && dp.Suffix != `" any"` {
				add("lists", "the parameter list ends in "+dp.Suffix)
			}
		}
		if da.Suffix != "" {
			add("lists", "the argument list gets the suffix "+da.Suffix)
		}
	}
	if nPair == 0 {
		add("pair", "no path emits the method pair")
	}
	if !sawSepP || !sawSepA {
		add("lists", "no path separates two elements of a list with \", \"")
	}
	// some path must add the ` any` suffix to a non-empty parameter list
	sawAny := false
	for _, p := range paths {
		i1 := p.evIndex("call", 0, func(t string) bool { return strings.HasPrefix(t, b+".writelnf("+funcTpl+",") })
		if i1 < 0 {
			continue
		}
		a1 := splitTop(strings.TrimSuffix(strings.TrimPrefix(p[i1].Text, b+".writelnf("), ")"), ",")
		if len(a1) == 5 {
			if d := describeJoined(p, i1, a1[3]); d.OK && d.Suffix == `" any"` {
				sawAny = true
			}
		}
	}
	if !sawAny {
		add("lists", "the ` any` type suffix is never added to a non-empty parameter list")
	}
	return
}

// contradictoryFacts: the path assumes a condition and its negation about the same unchanged variables (calls in
// between are ignored: used where the intervening calls are known not to touch them).
func contradictoryFacts(p bpath) bool {
	fs := p.facts()
	for i, f := range fs {
		neg := canonText(f, true)
		for _, g := range fs[i+1:] {
			if g == neg {
				return true
			}
		}
	}
	return false
}

// wfRoles: which parameter of builder.writeFunc plays which role, read from the signature and from how the two
// format parameters are used (the definition template is written with four operands, the call stub with two).
type wfRoles struct {
	Ix, Code, Def, Call int // parameter positions
	Names               []string
	Why                 string // non-empty: the roles could not be read
}

func (c *Ctx) writeFuncRoles() wfRoles {
	g := c.G()
	ro := wfRoles{Ix: -1, Code: -1, Def: -1, Call: -1}
	fd := load.FuncDecl(g.Pkg("builder"), "builder", "writeFunc")
	if fd == nil {
		ro.Why = "builder.writeFunc not found"
		return ro
	}
	b := recvName(fd)
	var strs []int
	i := 0
	for _, f := range fd.Type.Params.List {
		for _, nm := range f.Names {
			ro.Names = append(ro.Names, nm.Name)
			switch nospaceLit(f.Type) {
			case "int":
				ro.Ix = i
			case "*ast.CodeBlock":
				ro.Code = i
			case "string":
				strs = append(strs, i)
			}
			i++
		}
	}
	if ro.Ix < 0 || ro.Code < 0 || len(strs) != 2 || len(ro.Names) != 4 {
		ro.Why = "writeFunc does not take a method index, a code block and two templates"
		return ro
	}
	for _, p := range c.builderNorm().normPaths(fd) {
		for _, e := range p {
			if e.Kind != "call" {
				continue
			}
			for _, si := range strs {
				if strings.HasPrefix(e.Text, b+".writelnf("+ro.Names[si]+",") {
					n := len(splitTop(strings.TrimSuffix(strings.TrimPrefix(e.Text, b+".writelnf("), ")"), ","))
					switch n {
					case 5:
						ro.Def = si
					case 3:
						ro.Call = si
					}
				}
			}
		}
	}
	if ro.Def < 0 || ro.Call < 0 || ro.Def == ro.Call {
		ro.Why = "writeFunc does not write one of its templates with four operands (the definition) and the other with two (the call stub)"
	}
	return ro
}

// templateShape classifies a package-level format string of the builder: "def" (receiver, name, parameters, body),
// "call" (name, arguments) or "", and gives the result type the emitted method declares.
func (c *Ctx) templateShape(name string) (shape, result string) {
	g := c.G()
	bp := g.Pkg("builder")
	v, ok := pkgStringVar(bp, name)
	if !ok {
		// the normal form writes a constant as its value
		if len(name) < 2 || (name[0] != '`' && name[0] != '"') {
			return "", ""
		}
		u, err := strconv.Unquote(name)
		if err != nil {
			return "", ""
		}
		v = u
	}
	fits := func(n int) bool {
		args := make([]any, n)
		for i := range args {
			args[i] = "x"
		}
		return !strings.Contains(fmt.Sprintf(v, args...), "%!")
	}
	switch {
	case fits(4) && !fits(3):
		shape = "def"
	case fits(2) && !fits(1):
		shape = "call"
	}
	first := v
	if i := strings.Index(v, "{"); i >= 0 {
		first = v[:i]
	}
	if i := strings.LastIndex(first, ")"); i >= 0 {
		// text after the parameter list: either "(T, U)" (ends in ")") or a bare type
		first = strings.TrimSpace(first)
		if strings.HasSuffix(first, ")") {
			j := strings.LastIndex(first, "(")
			result = first[j:]
		} else {
			result = strings.TrimSpace(first[i+1:])
		}
	}
	result = strings.ReplaceAll(result, " ", "")
	if strings.HasPrefix(result, "(") && !strings.Contains(result, ",") {
		result = strings.Trim(result, "()")
	}
	return shape, result
}

// pkgStringVar gives the constant initial value of a package-level string variable or constant.
func pkgStringVar(p *packages.Package, name string) (string, bool) {
	if p == nil {
		return "", false
	}
	for _, f := range p.Syntax {
		for _, d := range f.Decls {
			gd, ok := d.(*ast.GenDecl)
			if !ok {
				continue
			}
			for _, sp := range gd.Specs {
				vs, ok := sp.(*ast.ValueSpec)
				if !ok {
					continue
				}
				for i, n := range vs.Names {
					if n.Name == name && i < len(vs.Values) {
						if tv, ok := p.TypesInfo.Types[vs.Values[i]]; ok && tv.Value != nil && tv.Value.Kind() == constant.String {
							return constant.StringVal(tv.Value), true
						}
					}
				}
			}
		}
	}
	return "", false
}
