package rules

import (
	"fmt"
	"regexp"
	"strings"

	"pigeonverif/internal/load"
)

// How a comma-separated list text is built, recognised on a normalised path in its two idioms: a buffer filled in a
// loop (separator before every element but the first) and strings.Join over the list or over a list mapped in a loop.

type joinDesc struct {
	List   string // the ranged list
	Sep    string // separator literal (quoted)
	Elem   string // element text with the list element written @
	Suffix string // literal appended when the result is non-empty ("" if none)
	OK     bool
	Why    string
}

var joinRe = regexp.MustCompile(`^strings\.Join\((.+),("(?:[^"\\]|\\.)*")\)$`)

// describeJoined explains how the text passed to an emission at event index upto was built.
func describeJoined(p bpath, upto int, text string) joinDesc {
	d := joinDesc{}
	suffix := ""
	t := text
	// strings.Join(...) [+ "suffix"]
	if i := indexTop(t, "+"); i > 0 && strings.HasPrefix(t[i+1:], `"`) {
		suffix = t[i+1:]
		t = t[:i]
		if strings.HasPrefix(t, "(") && strings.HasSuffix(t, ")") && indexTop(t[1:len(t)-1], ")") < 0 {
			t = t[1 : len(t)-1]
		}
	}
	if m := joinRe.FindStringSubmatch(t); m != nil {
		d.Sep, d.Suffix = m[2], suffix
		list := m[1]
		// the list itself, or a local list filled from another list in a loop
		if dollarRe.FindString(list) == list {
			for i := 0; i < upto; i++ {
				if p[i].Kind != "loop" || !strings.HasPrefix(p[i].Text, "range ") {
					continue
				}
				src := strings.TrimPrefix(p[i].Text, "range ")
				for j := i + 1; j < upto && p[j].Kind != "endloop"; j++ {
					if p[j].Kind != "set" {
						continue
					}
					for _, pre := range []string{list + "[#1]=", list + "=append(" + list + ","} {
						if strings.HasPrefix(p[j].Text, pre) {
							v := strings.TrimSuffix(strings.TrimPrefix(p[j].Text, pre), ")")
							if pre == list+"[#1]=" {
								v = strings.TrimPrefix(p[j].Text, pre)
							}
							d.List, d.Elem, d.OK = src, strings.ReplaceAll(v, src+"[#1]", "@"), true
						}
					}
				}
			}
			if !d.OK {
				// a list local that was never filled on this path: the empty list
				d.List, d.Elem, d.OK = list, "@", true
			}
			return d
		}
		d.List, d.Elem, d.OK = list, "@", true
		return d
	}
	// <buffer>.String(): the writes since the last Reset
	if strings.HasSuffix(text, ".String()") {
		buf := strings.TrimSuffix(text, ".String()")
		start := 0
		for i := 0; i < upto; i++ {
			if p[i].Kind == "call" && p[i].Text == buf+".Reset()" {
				start = i + 1
			}
		}
		depth := 0
		for i := start; i < upto; i++ {
			e := p[i]
			switch e.Kind {
			case "loop":
				depth++
				if depth == 1 && strings.HasPrefix(e.Text, "range ") {
					d.List = strings.TrimPrefix(e.Text, "range ")
				}
			case "endloop":
				depth--
			case "call":
				w := ""
				switch {
				case strings.HasPrefix(e.Text, buf+".WriteString("):
					w = strings.TrimSuffix(strings.TrimPrefix(e.Text, buf+".WriteString("), ")")
				case strings.HasPrefix(e.Text, "fmt.Fprintf(&"+buf+","):
					w = "fmt.Sprintf(" + strings.TrimPrefix(e.Text, "fmt.Fprintf(&"+buf+",")
				default:
					continue
				}
				facts := p[start:i].facts()
				switch {
				case depth >= 1 && strings.HasPrefix(w, `"`) && (containsStr(facts, "#1>0") || containsStr(facts, "#1!=0")):
					d.Sep = w
				case depth >= 1 && strings.HasPrefix(w, `"`):
					d.Why = "a separator is written without the test that the element is not the first"
				case depth >= 1:
					d.Elem = strings.ReplaceAll(w, d.List+"[#1]", "@")
				case depth == 0 && strings.HasPrefix(w, `"`):
					if containsStr(facts, buf+".Len()>0") || containsStr(facts, buf+".Len()!=0") {
						d.Suffix = w
					} else {
						d.Why = "the suffix " + w + " is written without the test that the list is non-empty"
					}
				}
			}
		}
		d.OK = d.Why == ""
		return d
	}
	d.Why = "the list text " + text + " is not built by a recognised idiom (buffer loop or strings.Join)"
	return d
}

// writeFuncSemantics: name, parameter list and argument list of the emitted method pair.
func writeFuncSemantics(c *Ctx) (probs map[string][]string) {
	probs = map[string][]string{}
	g := c.G()
	fd := load.FuncDecl(g.Pkg("builder"), "builder", "writeFunc")
	if fd == nil {
		probs["lists"] = []string{"writeFunc not found"}
		return
	}
	b := recvName(fd)
	ps := paramNames(fd)
	if len(ps) != 4 {
		probs["lists"] = []string{"unexpected parameters"}
		return
	}
	funcIx, code, callTpl, funcTpl := ps[0], ps[1], ps[2], ps[3]
	add := func(k, s string) { probs[k] = append(probs[k], s) }
	top := b + ".argsStack[len(" + b + ".argsStack)-1]"
	paths := c.builderNorm().normPaths(fd)
	nPair := 0
	sawSepP, sawSepA := false, false
	for _, p := range paths {
		if p.holds(code + "==nil") {
			if p.hasCall(b + ".writelnf(") {
				add("pair", "a nil code block emits a method")
			}
			continue
		}
		if contradictoryFacts(p) {
			continue // e.g. the label scope exists for the first list and not for the second: not a real path
		}
		i1 := p.evIndex("call", 0, func(t string) bool { return strings.HasPrefix(t, b+".writelnf("+funcTpl+",") })
		i2 := p.evIndex("call", 0, func(t string) bool { return strings.HasPrefix(t, b+".writelnf("+callTpl+",") })
		if i1 < 0 || i2 < 0 || i1 > i2 {
			add("pair", "the method definition and its call stub are not both emitted (definition first)")
			continue
		}
		nPair++
		a1 := splitTop(strings.TrimSuffix(strings.TrimPrefix(p[i1].Text, b+".writelnf("), ")"), ",")
		a2 := splitTop(strings.TrimSuffix(strings.TrimPrefix(p[i2].Text, b+".writelnf("), ")"), ",")
		if len(a1) != 5 || len(a2) != 3 {
			add("pair", fmt.Sprintf("unexpected emissions %v %v", a1, a2))
			continue
		}
		if a1[1] != b+".recvName" {
			add("pair", "the receiver of the method is "+a1[1])
		}
		name := b + ".funcName(" + funcIx + ")"
		if a1[2] != name || a2[1] != name {
			add("name", "method named "+a1[2]+" / "+a2[1]+", expected "+name+" in both")
		}
		dp := describeJoined(p, i1, a1[3])
		da := describeJoined(p, i2, a2[2])
		for _, d := range []joinDesc{dp, da} {
			if !d.OK {
				add("lists", d.Why)
			}
		}
		if !dp.OK || !da.OK {
			continue
		}
		okList := func(l string) bool { return l == top || dollarRe.FindString(l) == l || l == "" }
		if !okList(dp.List) || !okList(da.List) || (dp.List == top) != (da.List == top) {
			add("same-list", "parameter list ranges over "+dp.List+", argument list over "+da.List+", expected the innermost label scope "+top+" for both")
		}
		// on a path through the first element no separator is written; where one is written it is ", "
		if dp.List == top || dp.Sep != "" {
			if (dp.Sep != `", "` && dp.Sep != "") || dp.Elem != "@" {
				add("lists", "the parameter list is built with separator "+dp.Sep+" and element "+dp.Elem)
			}
			if dp.Sep == `", "` {
				sawSepP = true
			}
		}
		if da.List == top || da.Sep != "" {
			if (da.Sep != `", "` && da.Sep != "") || !(da.Elem == "fmt.Sprintf(`stack[%q]`,@)" || da.Elem == `fmt.Sprintf("stack[%q]",@)`) {
				add("lists", "the argument list is built with separator "+da.Sep+" and element "+da.Elem)
			}
			if da.Sep == `", "` {
				sawSepA = true
			}
		}
		// the type suffix of a non-empty parameter list
		if dp.List == top {
			nonEmptyKnown := p.holds("len("+top+")>0") || dp.Suffix != ""
			_ = nonEmptyKnown
			if dp.Suffix != "" && dp.Suffix != `" any"` {
				add("lists", "the parameter list ends in "+dp.Suffix)
			}
		}
		if da.Suffix != "" {
			add("lists", "the argument list gets the suffix "+da.Suffix)
		}
	}
	if nPair == 0 {
		add("pair", "no path emits the method pair")
	}
	if !sawSepP || !sawSepA {
		add("lists", "no path separates two elements of a list with \", \"")
	}
	// some path must add the ` any` suffix to a non-empty parameter list
	sawAny := false
	for _, p := range paths {
		i1 := p.evIndex("call", 0, func(t string) bool { return strings.HasPrefix(t, b+".writelnf("+funcTpl+",") })
		if i1 < 0 {
			continue
		}
		a1 := splitTop(strings.TrimSuffix(strings.TrimPrefix(p[i1].Text, b+".writelnf("), ")"), ",")
		if len(a1) == 5 {
			if d := describeJoined(p, i1, a1[3]); d.OK && d.Suffix == `" any"` {
				sawAny = true
			}
		}
	}
	if !sawAny {
		add("lists", "the ` any` type suffix is never added to a non-empty parameter list")
	}
	return
}

// contradictoryFacts: the path assumes a condition and its negation about the same unchanged variables (calls in
// between are ignored: used where the intervening calls are known not to touch them).
func contradictoryFacts(p bpath) bool {
	fs := p.facts()
	for i, f := range fs {
		neg := canonText(f, true)
		for _, g := range fs[i+1:] {
			if g == neg {
				return true
			}
		}
	}
	return false
}
