package rules

import (
	"fmt"
	"go/ast"
	"go/constant"
	"go/token"
	"pigeonverif/internal/variants"
	"sort"
	"strings"

	"pigeonverif/internal/load"
)

// C14 — throw and recover follow the labelled-failure semantics.
func C14(c *Ctx) {
	r := c.R
	r.Technique = "typestate abstract interpretation of parseRecoveryExpr / parseThrowExpr (handler stack pairing, scan order, first-success) in all 16 variants; emitted-field agreement in the builder; traversal exhaustiveness for the two kinds in the generator"
	r.Explanation = "Decides: (a) a handler is in force exactly while its guarded expression is evaluated: pushRecovery(labels, recoverExpr) precedes and popRecovery follows the guarded evaluation on every path, nobody else pushes or pops, push installs label->expr for every listed label at the new top and pop removes exactly the top; (b) a throw scans the handler stack from the innermost entry outwards, looks up its own label, returns the value of the first handler that succeeds, continues after a failing handler, and fails with nil when none succeeds; (c) the builder emits expr / recoverExpr / failureLabel / label from Expr / RecoverExpr / Labels / Label; (d) every generator traversal handles the two kinds (shared with C09-c; finding F1). Not decided: the dynamic nesting semantics beyond these shapes (e.g. handlers reached through rule references)."
	r.Assumptions = []string{"induction hypothesis on callee evaluators (a failing handler leaves position and state unchanged)"}
	r.Rule("C14-a", "parseRecoveryExpr: pushRecovery(<node>.failureLabel, <node>.recoverExpr); evaluate <node>.expr; popRecovery — on every path, with nothing evaluated outside the bracket; pushRecovery/popRecovery have no other caller")
	r.Rule("C14-a2", "pushRecovery stores, at the new top of recoveryStack, a map sending every label to the recovery expression; popRecovery shortens the stack by one")
	r.Rule("C14-b", "parseThrowExpr: index loop from len(recoveryStack)-1 down to 0; looks up <node>.label in recoveryStack[i]; returns the first ok handler result; fails (nil,false) only after the scan")
	r.Rule("C14-c", "builder.writeRecoveryExpr emits expr:, recoverExpr:, failureLabel: from Expr, RecoverExpr, Labels in that pairing; writeThrowExpr emits label: from Label")
	r.Rule("C14-d", "ast.Walk, the optimize visitor and cloneExpr handle RecoveryExpr (recursing into both operands) and ThrowExpr (no panicking default)")

	abs := c.allAbs()
	r.Min("semantic variants analysed", 16, len(abs))
	r.Rule("C14-g", "handlers are in force dynamically, the memo table is keyed by (node, offset): a path of parseExprWrap / parseRuleMemoize / parseRuleRecursiveLeader that answers from the table without evaluating consults the handler stack - otherwise a result remembered when no handler for the label was in force is replayed inside the guarded expression of a recovery operator, and the throw does not happen there")
	for _, a := range abs {
		vn := a.V.Name
		c14MemoHits(c, a.V)
		// ---- a
		if res := a.Res["parseRecoveryExpr"]; res != nil {
			param := res.Fn.Type.Params.List[0].Names[0].Name
			var bad []string
			for _, e := range res.Exits {
				var seq []string
				for _, ev := range e.State.Ev {
					switch ev.Kind {
					case "pushRecovery":
						seq = append(seq, "push("+strings.Join(ev.Args, ",")+")")
					case "popRecovery":
						seq = append(seq, "pop")
					case "eval":
						seq = append(seq, "eval("+ev.Args[1]+")")
					case "run", "read":
						seq = append(seq, ev.Kind)
					}
				}
				want := "push(" + param + ".failureLabel," + param + ".recoverExpr) eval(" + param + ".expr) pop"
				if strings.Join(seq, " ") != want {
					bad = append(bad, a.where(e, res.Fn)+": path performs ["+strings.Join(seq, " ")+"], expected ["+want+"]")
				}
				if e.State.Rec != 0 {
					bad = append(bad, a.where(e, res.Fn)+": handler stack not balanced at return")
				}
			}
			sort.Strings(bad)
			w := a.V.Where(res.Fn.Pos())
			if len(bad) > 0 {
				r.Bad("C14-a", "T.parseRecoveryExpr:handler-bracket", vn, w, bad[0])
			} else {
				r.Ok("C14-a", "T.parseRecoveryExpr:handler-bracket", vn, w, fmt.Sprintf("%d exits", len(res.Exits)))
			}
		} else {
			r.Fatal("variant %s: parseRecoveryExpr missing", vn)
		}
		var others []string
		for _, fd := range a.V.Funcs() {
			if fd.Name.Name == "parseRecoveryExpr" {
				continue
			}
			for _, ce := range callsIn(fd) {
				if s := callSel(ce); s == "pushRecovery" || s == "popRecovery" {
					others = append(others, fd.Name.Name)
				}
			}
			// direct writes to recoveryStack outside push/pop
			if fd.Name.Name != "pushRecovery" && fd.Name.Name != "popRecovery" {
				ast.Inspect(fd, func(n ast.Node) bool {
					if as, ok := n.(*ast.AssignStmt); ok {
						for _, l := range as.Lhs {
							if strings.Contains(nospace(l), ".recoveryStack") {
								others = append(others, fd.Name.Name+"(direct write)")
							}
						}
					}
					return true
				})
			}
		}
		r.Check(len(others) == 0, "C14-a", "T.recoveryStack:owners", vn, "builder/static_code.go", "only parseRecoveryExpr pushes/pops; only push/pop write the stack", "also used in "+strings.Join(others, ","))
		// ---- a2 shapes
		c14Shapes(c, a)
		// ---- b
		if res := a.Res["parseThrowExpr"]; res != nil {
			param := res.Fn.Type.Params.List[0].Names[0].Name
			var bad []string
			// the scan: innermost handler first. Accepted spellings of "from the top of the stack downwards":
			//   for i := len(S)-1; i >= 0; i-- { … S[i][label] … }
			//   for n := range S { … S[len(S)-1-n][label] … }   (the bound also through a local defined once as len(S)-1)
			//   for _, frame := range slices.Backward(S) { … frame[label] … }
			var loop ast.Node
			ast.Inspect(res.Fn.Body, func(n ast.Node) bool {
				switch n.(type) {
				case *ast.ForStmt, *ast.RangeStmt:
					if loop == nil {
						loop = n
					}
				}
				return true
			})
			S := "p.recoveryStack"
			var wantLookups []string
			keep := map[string]bool{}
			switch l := loop.(type) {
			case *ast.ForStmt:
				iv := ""
				if l.Init == nil || l.Cond == nil || l.Post == nil {
					bad = append(bad, "no index loop over recoveryStack found")
					break
				}
				as, _ := l.Init.(*ast.AssignStmt)
				post, _ := l.Post.(*ast.IncDecStmt)
				if as != nil && len(as.Lhs) == 1 {
					iv = nospace(as.Lhs[0])
				}
				if as == nil || nospace(as.Rhs[0]) != "len("+S+")-1" || nospace(l.Cond) != iv+">=0" || post == nil || post.Tok != token.DEC || nospace(post.X) != iv {
					bad = append(bad, "loop is not `for i := len(p.recoveryStack)-1; i >= 0; i--` (innermost handler first)")
				}
				keep[iv] = true
				wantLookups = []string{S + "[" + iv + "][" + param + ".label]"}
			case *ast.RangeStmt:
				switch {
				case nospace(l.X) == S && l.Key != nil && (l.Value == nil || nospace(l.Value) == "_"):
					n := nospace(l.Key)
					keep[n] = true
					for _, ix := range []string{"len(" + S + ")-1-" + n, "len(" + S + ")-" + n + "-1"} {
						wantLookups = append(wantLookups, S+"["+ix+"]["+param+".label]")
					}
				case nospace(l.X) == "slices.Backward("+S+")" && l.Value != nil:
					fv := nospace(l.Value)
					keep[fv] = true
					wantLookups = []string{fv + "[" + param + ".label]"}
				default:
					bad = append(bad, "the loop over recoveryStack ("+nospace(l.X)+") does not run from the innermost handler outwards")
				}
			default:
				bad = append(bad, "no index loop over recoveryStack found")
			}
			// lookup
			lookup := false
			inl := inlineLocals(res.Fn, keep)
			ast.Inspect(res.Fn.Body, func(n ast.Node) bool {
				if ix, ok := n.(*ast.IndexExpr); ok {
					for _, w := range wantLookups {
						if nospace(ix) == w || inl(ix) == w || strings.ReplaceAll(inl(ix), "(len("+S+")-1)-", "len("+S+")-1-") == w {
							lookup = true
						}
					}
				}
				return true
			})
			if !lookup {
				bad = append(bad, "handler not looked up as p.recoveryStack[i]["+param+".label]")
			}
			for _, e := range res.Exits {
				evs := eventsOf(e, "eval")
				ok := e.Ok()
				switch {
				case ok.IsTrue():
					if len(evs) == 0 || evs[len(evs)-1].Args[2] != "ok" {
						bad = append(bad, a.where(e, res.Fn)+": throw succeeds without a succeeding handler")
					}
					for _, ev := range evs[:max(0, len(evs)-1)] {
						if ev.Args[2] == "ok" {
							bad = append(bad, a.where(e, res.Fn)+": scan continues after a handler succeeded")
						}
					}
					if loop != nil && !contains(loop, e.Pos) {
						bad = append(bad, a.where(e, res.Fn)+": success returned outside the scan loop")
					}
				case ok.IsFalse():
					for _, ev := range evs {
						if ev.Args[2] == "ok" {
							bad = append(bad, a.where(e, res.Fn)+": throw fails although a handler succeeded")
						}
					}
					if loop != nil && contains(loop, e.Pos) {
						bad = append(bad, a.where(e, res.Fn)+": failure returned from inside the scan (outer handlers not tried)")
					}
					// … nor before it, unless the stack is known to be empty: whether a handler is in force is what the
					// stack says, not what a side index remembers
					if loop != nil && e.Pos < loop.Pos() {
						emptyStack := false
						for _, gd := range factsAt(res.Fn.Body, e.Pos) {
							if gd == "len(p.recoveryStack)==0" {
								emptyStack = true
							}
						}
						if !emptyStack {
							bad = append(bad, a.where(e, res.Fn)+": the throw fails before the handler stack is scanned (under ["+strings.Join(factsAt(res.Fn.Body, e.Pos), " ")+"]): handlers in force are those on the stack, a separate record of labels can disagree with it (an inner operator that is popped takes a label out of a set although an enclosing operator still lists it)")
						}
					}
				default:
					bad = append(bad, a.where(e, res.Fn)+": result flag unknown")
				}
			}
			sort.Strings(bad)
			w := a.V.Where(res.Fn.Pos())
			if len(bad) > 0 {
				r.Bad("C14-b", "T.parseThrowExpr:innermost-first-success", vn, w, bad[0])
			} else {
				r.Ok("C14-b", "T.parseThrowExpr:innermost-first-success", vn, w, fmt.Sprintf("%d exits", len(res.Exits)))
			}
		} else {
			r.Fatal("variant %s: parseThrowExpr missing", vn)
		}
	}
	c14Builder(c)
	traversalExhaustiveness(c, "C14-d", []string{"RecoveryExpr", "ThrowExpr"})
	if g := c.G(); g != nil {
		r.Rule("C14-e", "a clone made by -optimize-grammar keeps every field of the node (C09-h under this property): an inlined throw keeps its label, an inlined recovery operator its label list")
		cloneKeepsFields(c, g, "C14-e")
		r.Rule("C14-f", "-optimize-grammar never replaces a recovery operator or a throw by something else (C09-i under this property): optimizeRule returns the expression itself, a clone of a referenced rule, or the single element of a choice / sequence - a recovery operator stays in force around its guarded expression, a throw stays a throw that enclosing handlers can catch")
		optimizerUnwraps(c, g, "C14-f")
	}
}

// freshTopSlot checks that a push function leaves, on every path, a map at the top slot of p.<stack> that holds
// nothing but what this call stores: either a map allocated by make() in this call and installed unconditionally
// before the function ends, or (early return) the existing map under a guard proving it empty (len(m) == 0).
// It returns "" when the rule holds, else the reason.
func freshTopSlot(fd *ast.FuncDecl, stack string) string {
	top := "p." + stack + "[len(p." + stack + ")-1]"
	fromTop := map[string]bool{} // locals loaded from the top slot
	madeAt := map[string][]ast.Node{}
	var installs []*ast.AssignStmt
	ast.Inspect(fd.Body, func(n ast.Node) bool {
		as, ok := n.(*ast.AssignStmt)
		if !ok || len(as.Lhs) != 1 || len(as.Rhs) != 1 {
			return true
		}
		l, r := nospace(as.Lhs[0]), nospace(as.Rhs[0])
		if r == top {
			fromTop[l] = true
		}
		if strings.HasPrefix(r, "make(map[") {
			madeAt[l] = append(madeAt[l], as)
		}
		if l == top {
			installs = append(installs, as)
		}
		return true
	})
	// early returns
	for _, rs := range returnsOf(fd) {
		gs := guardsOf(fd.Body, rs.Pos())
		ok := false
		for _, gd := range gs {
			for m := range fromTop {
				for _, conj := range strings.Split(gd, "&&") {
					if conj == "len("+m+")==0" {
						ok = true
					}
				}
			}
		}
		if !ok {
			return "returns early under [" + strings.Join(gs, ";") + "] without proving the reused map empty"
		}
	}
	// the fall-through end: an unconditional install of a map made in this call
	for _, in := range installs {
		if len(guardsOf(fd.Body, in.Pos())) != 0 {
			continue
		}
		v := nospace(in.Rhs[0])
		if strings.HasPrefix(v, "make(map[") {
			return ""
		}
		// every definition of v reaching the install must be a make(): the last assignment to v before the install is an unconditional make
		var last ast.Node
		ast.Inspect(fd.Body, func(n ast.Node) bool {
			if as, ok := n.(*ast.AssignStmt); ok && len(as.Lhs) == 1 && nospace(as.Lhs[0]) == v && as.Pos() < in.Pos() {
				last = as
			}
			return true
		})
		if las, ok := last.(*ast.AssignStmt); ok && strings.HasPrefix(nospace(las.Rhs[0]), "make(map[") && len(guardsOf(fd.Body, las.Pos())) == 0 {
			return ""
		}
		return "the map installed at the top slot (" + v + ") is not freshly allocated on every path: entries of an earlier scope can survive"
	}
	return "no unconditional installation of a fresh map at the top slot: a map left behind by an earlier push at this depth can be reused with its entries"
}

func c14Shapes(c *Ctx, a *absVariant) {
	r := c.R
	vn := a.V.Name
	push := a.V.Func("parser", "pushRecovery")
	pop := a.V.Func("parser", "popRecovery")
	if push == nil || pop == nil {
		r.Fatal("variant %s: pushRecovery/popRecovery missing", vn)
		return
	}
	pn := paramNames(push)
	if len(pn) != 2 {
		r.Unk("C14-a2", "T.pushRecovery:shape", vn, a.V.Where(push.Pos()), "unexpected parameter list")
		return
	}
	labels, expr := pn[0], pn[1]
	paths := c.vnorm(a.V).normPaths(push)
	sem := pushSemantics(paths, "recoveryStack")
	// the map at the new top sends every label to the recovery expression
	fill := len(paths) > 0
	for pi, p := range paths {
		m := sem.TopMap[pi]
		lo, hi := loopSpan(p, "range "+labels)
		okFill := false
		for i := lo + 1; lo >= 0 && i < hi && i < len(p); i++ {
			if p[i].Kind == "set" && p[i].Text == m+"["+labels+"[#1]]="+expr {
				okFill = true
			}
			if p[i].Kind == "+" || p[i].Kind == "branch" {
				okFill = false
				break
			}
		}
		if !okFill {
			fill = false
		}
	}
	detail := fmt.Sprintf("grow=%t every-label-mapped-in-the-installed-map=%t", sem.Grow, fill)
	if sem.FreshTop != "" {
		detail += "; " + sem.FreshTop
	}
	r.Check(sem.Grow && fill && sem.FreshTop == "", "C14-a2", "T.pushRecovery:shape", vn, a.V.Where(push.Pos()), "grow by one; a fresh map sends every label to the expression; installed at the top", detail)
	r.Check(popShortensByOne(c.vnorm(a.V).normPaths(pop), "recoveryStack"), "C14-a2", "T.popRecovery:shape", vn, a.V.Where(pop.Pos()), "stack shortened by one", "popRecovery does not shorten the stack by exactly one on every path")
}

// emittedPairs extracts, from a builder writer, the sequence of (emitted key, source expression) pairs:
// for `b.writelnf("\tkey: %q,", X)` the pair (key, X); for `b.writef("\tkey: "); b.writeExpr(X)` the pair (key, X);
// for a loop emitting elements after a `key: []T{` line the pair (key, ranged expression).
func emittedPairs(bp *load.G, fd *ast.FuncDecl) [][2]string {
	var pairs [][2]string
	info := bp.Pkg("builder").TypesInfo
	pending := ""
	var visit func(list []ast.Stmt)
	visit = func(list []ast.Stmt) {
		for _, st := range list {
			switch x := st.(type) {
			case *ast.ExprStmt:
				ce, ok := x.X.(*ast.CallExpr)
				if !ok {
					continue
				}
				switch callName(ce) {
				case "b.writelnf", "b.writef":
					if len(ce.Args) == 0 {
						continue
					}
					f := ""
					if tv, ok := info.Types[ce.Args[0]]; ok && tv.Value != nil && tv.Value.Kind() == constant.String {
						f = constant.StringVal(tv.Value)
					}
					f = strings.TrimSpace(f)
					if i := strings.Index(f, ":"); i > 0 && !strings.Contains(f[:i], " ") && !strings.Contains(f[:i], "%") {
						key := f[:i]
						rest := strings.TrimSpace(f[i+1:])
						switch {
						case len(ce.Args) >= 2 && key != "pos":
							pairs = append(pairs, [2]string{key, nospace(ce.Args[1])})
							pending = ""
						case rest == "" || strings.HasSuffix(rest, "{"):
							pending = key
						}
					} else if pending != "" && len(ce.Args) >= 2 && strings.HasPrefix(f, "%") {
						// element of a list opened by pending key: handled by the enclosing range
					}
				case "b.writeExpr":
					if pending != "" && len(ce.Args) == 1 {
						pairs = append(pairs, [2]string{pending, nospace(ce.Args[0])})
						pending = ""
					}
				}
			case *ast.RangeStmt:
				if pending != "" {
					pairs = append(pairs, [2]string{pending, nospace(x.X)})
					pending = ""
				}
				visit(x.Body.List)
			case *ast.IfStmt:
				visit(x.Body.List)
				if eb, ok := x.Else.(*ast.BlockStmt); ok {
					visit(eb.List)
				}
			case *ast.ForStmt:
				visit(x.Body.List)
			case *ast.BlockStmt:
				visit(x.List)
			}
		}
	}
	visit(fd.Body.List)
	return pairs
}

func c14Builder(c *Ctx) {
	r := c.R
	g := c.G()
	if g == nil {
		return
	}
	bp := g.Pkg("builder")
	for _, it := range []struct {
		fn   string
		want map[string]string
	}{
		{"writeRecoveryExpr", map[string]string{"expr": ".Expr", "recoverExpr": ".RecoverExpr", "failureLabel": ".Labels"}},
		{"writeThrowExpr", map[string]string{"label": ".Label"}},
	} {
		fd := load.FuncDecl(bp, "builder", it.fn)
		if fd == nil {
			r.Fatal("anchor builder.%s not found", it.fn)
			continue
		}
		param := fd.Type.Params.List[0].Names[0].Name
		got := map[string]string{}
		for _, p := range emittedPairs(g, fd) {
			got[p[0]] = p[1]
		}
		var bad []string
		for k, suf := range it.want {
			if got[k] != param+suf {
				bad = append(bad, fmt.Sprintf("%s: is emitted from %q, expected %s%s", k, got[k], param, suf))
			}
		}
		sort.Strings(bad)
		r.Check(len(bad) == 0, "C14-c", "G.builder."+it.fn+":field-pairing", "", g.Where(fd.Pos()), fmt.Sprintf("%v", got), strings.Join(bad, "; "))
	}
	// every recovery / throw node of the grammar becomes a runtime node, unconditionally (node type, all keys on every
	// path, no emission guard other than the nil test): a handler that is not emitted is never in force
	builderPairingN(c, "C14-c", "writeRecoveryExpr", "writeThrowExpr")
}

// c14MemoHits (C14-g): handlers are in force dynamically, so what an expression yields depends on the handler stack
// wherever a throw can be reached from it. The memo table is keyed by (node, offset) alone: a result remembered when
// no handler (or another handler) was in force is replayed inside the guarded expression of a recovery operator, and
// the throw never happens there. The rule reads the paths of the three routines that answer from the table: a path
// that returns a remembered result without evaluating must consult the handler stack (a fact or call that names it).
func c14MemoHits(c *Ctx, v *variants.Variant) {
	r := c.R
	for _, fn := range []string{"parseExprWrap", "parseRuleMemoize", "parseRuleRecursiveLeader"} {
		fd := v.Func("parser", fn)
		if fd == nil {
			continue // not part of this variant
		}
		nHit, nBlind := 0, 0
		for _, p := range c.vnorm(v).without("read", "restore", "failAt", "sliceFrom", "in", "out", "addErr", "addErrAt", "getMemoized", "setMemoized", "parseRule", "parseExpr", "cloneState", "restoreState", "printIndent").normPaths(fd) {
			iGet := p.evIndex("call", 0, func(s string) bool { return strings.Contains(s, ".getMemoized(") })
			if iGet < 0 || lastReturn(p) == "" {
				continue
			}
			if p.evIndex("call", iGet, func(s string) bool { return strings.Contains(s, ".parseRule(") || strings.Contains(s, ".parseExpr(") }) >= 0 {
				continue
			}
			nHit++
			aware := false
			for _, e := range p {
				if strings.Contains(e.Text, "recoveryStack") || strings.Contains(e.Text, "Recovery") {
					aware = true
				}
			}
			if !aware {
				nBlind++
			}
		}
		if nHit == 0 {
			continue
		}
		r.Check(nBlind == 0, "C14-g", "T."+fn+":memo-hit-respects-handlers", v.Name, v.Where(fd.Pos()), fmt.Sprintf("%d paths answer from the table, each consulting the handler stack", nHit),
			fmt.Sprintf("%d of %d paths that answer from the memo table never look at the handler stack: the table is keyed by (node, offset) only, so a result remembered while no handler for the label was in force is replayed inside the guarded expression of a recovery operator and the throw does not happen there", nBlind, nHit))
	}
}
