package rules

import (
	"bytes"
	"fmt"
	"go/ast"
	"go/parser"
	"go/token"
	"os"
	"path/filepath"
	"regexp"
	"sort"
	"strconv"
	"strings"
	"unicode/utf8"

	"pigeonverif/internal/load"
)

// Bootstrap subset (C20-j). The three stages are a fixpoint only if the grammar each stage reads lies in the subset
// the front-end of the stage before understands: grammar/bootstrap.peg is read by the hand-written front-end,
// grammar/pigeon.peg by the front-end generated from bootstrap.peg (stage 2) *and* by pigeon itself (stage 3), and
// stage 2 must build what stage 3 builds. Where pigeon.peg extends bootstrap.peg (C20-f lists those rules) the text of
// pigeon.peg must therefore not use the extension. Four clauses are decided from the artifacts and the grammar bytes:
//
//	(1) kinds: every node type in the grammar literal of pigeon.go is one the actions of bootstrap_pigeon.go can
//	    construct (ast.New<Kind>); every node type in the literal of bootstrap_pigeon.go is one bootstrap/parser.go
//	    constructs;
//	(2) code blocks: bootstrap.peg's Code rule and the hand-written scanCode count braces, pigeon.peg's Code rule
//	    skips Go strings, rune literals and comments. Every code block of the two grammars must end at the same byte
//	    under both disciplines (a lone brace inside a string or comment ends the block early for the counting reader);
//	(3) rule-definition operators: the operator that follows every rule name of pigeon.peg is one of the literals of
//	    bootstrap.peg's RuleDefOp;
//	(4) identifiers: rule names, references and labels of pigeon.peg consist of the runes bootstrap.peg's
//	    IdentifierStart / IdentifierPart accept (ASCII letters, digits, underscore).

// pegCodeBlocks scans the surface syntax of a grammar text and returns the byte offsets of the opening braces of its
// code blocks (initializer, actions, predicates, state blocks), skipping literals, classes, comments and the label
// lists of the throw and recovery operators. endOf decides where a block ends; scanning resumes there.
func pegCodeBlocks(src []byte, endOf func(src []byte, open int) int) []int {
	return pegScan(src, endOf, nil)
}

// pegScan is pegCodeBlocks with a callback for every `//{` met outside literals, classes, comments and code blocks.
func pegScan(src []byte, endOf func(src []byte, open int) int, onRecovery func(off int)) []int {
	var out []int
	i := 0
	for i < len(src) {
		ch := src[i]
		switch {
		case ch == '/' && i+2 < len(src) && src[i+1] == '/' && src[i+2] == '{':
			// recovery operator //{labels}
			if onRecovery != nil {
				onRecovery(i)
			}
			j := bytes.IndexByte(src[i:], '}')
			if j < 0 {
				return out
			}
			i += j + 1
		case ch == '/' && i+1 < len(src) && src[i+1] == '/':
			j := bytes.IndexByte(src[i:], '\n')
			if j < 0 {
				return out
			}
			i += j + 1
		case ch == '/' && i+1 < len(src) && src[i+1] == '*':
			j := bytes.Index(src[i+2:], []byte("*/"))
			if j < 0 {
				return out
			}
			i += 2 + j + 2
		case ch == '%' && i+1 < len(src) && src[i+1] == '{':
			j := bytes.IndexByte(src[i:], '}')
			if j < 0 {
				return out
			}
			i += j + 1
		case ch == '"' || ch == '\'':
			j := i + 1
			for j < len(src) && src[j] != ch && src[j] != '\n' {
				if src[j] == '\\' {
					j++
				}
				j++
			}
			i = j + 1
		case ch == '`':
			j := bytes.IndexByte(src[i+1:], '`')
			if j < 0 {
				return out
			}
			i += 1 + j + 1
		case ch == '[':
			j := i + 1
			for j < len(src) && src[j] != ']' && src[j] != '\n' {
				if src[j] == '\\' {
					j++
				}
				j++
			}
			i = j + 1
		case ch == '{':
			out = append(out, i)
			e := endOf(src, i)
			if e <= i {
				return out
			}
			i = e
		default:
			i++
		}
	}
	return out
}

// codeEndCounting: the offset just after the brace that closes the block opened at open, counting braces only (the
// Code rule of bootstrap.peg and scanCode of the hand-written scanner). -1: not closed.
func codeEndCounting(src []byte, open int) int {
	depth := 0
	for i := open; i < len(src); i++ {
		switch src[i] {
		case '{':
			depth++
		case '}':
			depth--
			if depth == 0 {
				return i + 1
			}
		}
	}
	return -1
}

// codeEndLexical: the same under the Code rule of pigeon.peg: comments (/* … */, // … to the line end unless the
// slashes are followed by an opening brace), "…" strings on one line with \" and \\ escapes, `…` raw strings and
// '…' rune literals are skipped as units when they are complete; anything else is a single character.
func codeEndLexical(src []byte, open int) int {
	depth := 0
	i := open
	for i < len(src) {
		ch := src[i]
		switch {
		case ch == '/' && i+1 < len(src) && src[i+1] == '*':
			if j := bytes.Index(src[i+2:], []byte("*/")); j >= 0 {
				i += 2 + j + 2
				continue
			}
		case ch == '/' && i+1 < len(src) && src[i+1] == '/' && !(i+2 < len(src) && src[i+2] == '{'):
			j := bytes.IndexByte(src[i:], '\n')
			if j < 0 {
				return -1
			}
			i += j // the line end itself is an ordinary character
			continue
		case ch == '"':
			j := i + 1
			closed := false
			for j < len(src) {
				if src[j] == '\\' && j+1 < len(src) && (src[j+1] == '"' || src[j+1] == '\\') {
					j += 2
					continue
				}
				if src[j] == '"' {
					closed = true
					break
				}
				if src[j] == '\r' || src[j] == '\n' {
					break
				}
				j++
			}
			if closed {
				i = j + 1
				continue
			}
		case ch == '`':
			if j := bytes.IndexByte(src[i+1:], '`'); j >= 0 {
				i += 1 + j + 1
				continue
			}
		case ch == '\'':
			// '\'' ( `\'` / `\\` / [^']+ ) '\''
			if i+3 < len(src) && src[i+1] == '\\' && (src[i+2] == '\'' || src[i+2] == '\\') && src[i+3] == '\'' {
				i += 4
				continue
			}
			if j := bytes.IndexByte(src[i+1:], '\''); j > 0 {
				i += 1 + j + 1
				continue
			}
		}
		switch ch {
		case '{':
			depth++
		case '}':
			depth--
			if depth == 0 {
				return i + 1
			}
		}
		i++
	}
	return -1
}

// literalKinds: the node types (&xxxExpr{…}, &xxxMatcher{…}) in the grammar literal of a generated parser, and the
// ast.New… constructors its functions call (for the hand-written parser: only the latter).
func literalKinds(path string, headOnly bool) (kinds map[string]bool, ctors map[string]bool, err error) {
	b, err := os.ReadFile(path)
	if err != nil {
		return nil, nil, err
	}
	text := string(b)
	if headOnly {
		if loc := staticStartRe.FindStringIndex(text); loc != nil {
			text = text[:loc[0]]
		}
	}
	f, err := parser.ParseFile(token.NewFileSet(), path, text, parser.SkipObjectResolution)
	if err != nil {
		return nil, nil, err
	}
	kinds, ctors = map[string]bool{}, map[string]bool{}
	ast.Inspect(f, func(n ast.Node) bool {
		switch x := n.(type) {
		case *ast.CompositeLit:
			if id, ok := x.Type.(*ast.Ident); ok && (strings.HasSuffix(id.Name, "Expr") || strings.HasSuffix(id.Name, "Matcher")) {
				kinds[id.Name] = true
			}
		case *ast.CallExpr:
			if se, ok := x.Fun.(*ast.SelectorExpr); ok && nospace(se.X) == "ast" && strings.HasPrefix(se.Sel.Name, "New") {
				ctors[se.Sel.Name] = true
			}
		}
		return true
	})
	return kinds, ctors, nil
}

type litRule struct {
	name   string
	offset int
}

var valLitRe = regexp.MustCompile(`val=("(?:[^"\\]|\\.)*")`)

// literalNames: rule names with their offsets, referenced names and labels of a generated grammar literal.
func literalNames(path string) (rules []litRule, names []string, err error) {
	b, err := os.ReadFile(path)
	if err != nil {
		return nil, nil, err
	}
	text := string(b)
	if loc := staticStartRe.FindStringIndex(text); loc != nil {
		text = text[:loc[0]]
	}
	f, err := parser.ParseFile(token.NewFileSet(), path, text, parser.SkipObjectResolution)
	if err != nil {
		return nil, nil, err
	}
	str := func(e ast.Expr) (string, bool) {
		if bl, ok := e.(*ast.BasicLit); ok && bl.Kind == token.STRING {
			s, err := strconv.Unquote(bl.Value)
			return s, err == nil
		}
		return "", false
	}
	ast.Inspect(f, func(n ast.Node) bool {
		cl, ok := n.(*ast.CompositeLit)
		if !ok {
			return true
		}
		tn := ""
		if id, ok := cl.Type.(*ast.Ident); ok {
			tn = id.Name
		}
		fields := map[string]ast.Expr{}
		for _, e := range cl.Elts {
			if kv, ok := e.(*ast.KeyValueExpr); ok {
				fields[nospace(kv.Key)] = kv.Value
			}
		}
		switch {
		case tn == "ruleRefExpr":
			if s, ok := str(fields["name"]); ok {
				names = append(names, s)
			}
		case tn == "labeledExpr":
			if s, ok := str(fields["label"]); ok {
				names = append(names, s)
			}
		case fields["name"] != nil && fields["expr"] != nil && fields["pos"] != nil:
			s, ok := str(fields["name"])
			if !ok {
				break
			}
			off := -1
			if pc, ok := fields["pos"].(*ast.CompositeLit); ok {
				for _, pe := range pc.Elts {
					if pkv, ok := pe.(*ast.KeyValueExpr); ok && nospace(pkv.Key) == "offset" {
						if bl, ok := pkv.Value.(*ast.BasicLit); ok {
							off, _ = strconv.Atoi(bl.Value)
						}
					}
				}
			}
			rules = append(rules, litRule{s, off})
			names = append(names, s)
		}
		return true
	})
	return rules, names, nil
}

func bootstrapSubset(c *Ctx, rule string) {
	r := c.R
	repo := load.Repo()
	bootGo := filepath.Join(repo, "bootstrap/cmd/bootstrap-pigeon/bootstrap_pigeon.go")
	fullGo := filepath.Join(repo, "pigeon.go")
	handGo := filepath.Join(repo, "bootstrap/parser.go")

	// ---- (1) kinds
	fullKinds, _, err1 := literalKinds(fullGo, true)
	bootKinds, bootCtors, err2 := literalKinds(bootGo, true)
	_, handCtors, err3 := literalKinds(handGo, false)
	if err1 != nil || err2 != nil || err3 != nil {
		r.Fatal("%s: cannot read the front-ends: %v %v %v", rule, err1, err2, err3)
		return
	}
	ctorOf := func(kind string) string { return "New" + strings.ToUpper(kind[:1]) + kind[1:] }
	for _, st := range []struct {
		what, grammar string
		kinds, ctors  map[string]bool
		reader        string
	}{
		{"pigeon.go", "grammar/pigeon.peg", fullKinds, bootCtors, "the front-end generated from grammar/bootstrap.peg (stage 2)"},
		{"bootstrap_pigeon.go", "grammar/bootstrap.peg", bootKinds, handCtors, "the hand-written front-end (stage 1)"},
	} {
		var missing []string
		for k := range st.kinds {
			if !st.ctors[ctorOf(k)] {
				missing = append(missing, k)
			}
		}
		sort.Strings(missing)
		r.Check(len(missing) == 0 && len(st.kinds) >= 8, rule, "A."+st.grammar+":expression-kinds-within-the-previous-stage", "", st.grammar,
			fmt.Sprintf("%d node types in the literal of %s, each constructed by %s", len(st.kinds), st.what, st.reader),
			fmt.Sprintf("%s uses %s, which %s never constructs (no ast.%s call): the stage cannot read its own input grammar, the chain is no fixpoint", st.grammar, strings.Join(missing, ", "), st.reader, ctorOf(firstOr(missing, "x"))))
	}

	// ---- (2) code blocks
	boot, errb := canonRules(bootGo)
	full, errf := canonRules(fullGo)
	if errb != nil || errf != nil {
		r.Fatal("%s: cannot read the grammar literals: %v %v", rule, errb, errf)
		return
	}
	refs := func(expr string) []string {
		var out []string
		for _, m := range regexp.MustCompile(`ruleRefExpr\{name="([^"]*)"`).FindAllStringSubmatch(expr, -1) {
			out = append(out, m[1])
		}
		sort.Strings(out)
		return uniq(out)
	}
	bootRefs, fullRefs := strings.Join(refs(boot["Code"]), ","), strings.Join(refs(full["Code"]), ",")
	nBlocks := 0
	switch {
	case boot["Code"] != "" && boot["Code"] == full["Code"]:
		r.Ok(rule, "A.grammar:code-blocks-delimited-alike-by-every-stage", "", "grammar/", "the two grammars define Code identically")
	case bootRefs == "Code,SourceChar" && fullRefs == "Code,CodeStringLiteral,Comment,SourceChar":
		var bad []string
		for _, gf := range []string{"grammar/pigeon.peg", "grammar/bootstrap.peg"} {
			src, err := os.ReadFile(filepath.Join(repo, gf))
			if err != nil {
				r.Fatal("%s: %v", rule, err)
				return
			}
			for _, open := range pegCodeBlocks(src, codeEndLexical) {
				nBlocks++
				a, b := codeEndCounting(src, open), codeEndLexical(src, open)
				if a != b {
					line := 1 + bytes.Count(src[:open], []byte("\n"))
					where := "is not closed"
					if a > 0 {
						where = fmt.Sprintf("ends at line %d", 1+bytes.Count(src[:a], []byte("\n")))
					}
					wl := "is not closed"
					if b > 0 {
						wl = fmt.Sprintf("ends at line %d", 1+bytes.Count(src[:b], []byte("\n")))
					}
					bad = append(bad, fmt.Sprintf("%s: the code block opened at line %d %s for a reader that counts braces (bootstrap.peg's Code rule, the hand-written scanner) and %s for pigeon.peg's Code rule, which skips strings, rune literals and comments: a brace inside one of those is not balanced within it", gf, line, where, wl))
					break
				}
			}
		}
		r.Check(len(bad) == 0 && nBlocks >= 40, rule, "A.grammar:code-blocks-delimited-alike-by-every-stage", "", "grammar/pigeon.peg, grammar/bootstrap.peg",
			fmt.Sprintf("%d code blocks, each ending at the same byte whether braces are counted or strings and comments are skipped", nBlocks),
			strings.Join(bad, "; ")+" - stage 2 (bootstrap-pigeon) then cuts the block short, silently drops the rest of the grammar (bootstrap.peg's Grammar rule has no EOF) and does not reproduce pigeon.go")
	default:
		r.Unk(rule, "A.grammar:code-blocks-delimited-alike-by-every-stage", "", "grammar/", fmt.Sprintf("the Code rules no longer have the shapes the two delimiting models were written for (bootstrap references %s, pigeon %s)", bootRefs, fullRefs))
	}
	r.Analysed["grammar_code_blocks"] = nBlocks

	// ---- (5) comments: where the two grammars define SingleLineComment differently (pigeon.peg excludes `//{`, which
	// opens the label list of a recovery expression; bootstrap.peg and the hand-written scanner read `//` plus anything
	// as a comment), the texts themselves must not contain `//{` where a comment or an operator can stand: stage 2
	// would skip a line that stage 3 reads as the tail of the rule before it.
	if boot["SingleLineComment"] != "" && boot["SingleLineComment"] == full["SingleLineComment"] {
		r.Ok(rule, "A.grammar:comments-delimited-alike-by-every-stage", "", "grammar/", "the two grammars define SingleLineComment identically")
	} else {
		var bad []string
		nScanned := 0
		for _, gf := range []string{"grammar/pigeon.peg", "grammar/bootstrap.peg"} {
			src, err := os.ReadFile(filepath.Join(repo, gf))
			if err != nil {
				r.Fatal("%s: %v", rule, err)
				return
			}
			nScanned++
			pegScan(src, codeEndLexical, func(off int) {
				bad = append(bad, fmt.Sprintf("%s:%d: `//{` outside literals, classes and code blocks: a comment for bootstrap.peg's SingleLineComment (\"//\" up to the line end) and the label list of a recovery expression for pigeon.peg's (which excludes \"//{\")", gf, 1+bytes.Count(src[:off], []byte("\n"))))
			})
		}
		r.Check(len(bad) == 0 && nScanned == 2, rule, "A.grammar:comments-delimited-alike-by-every-stage", "", "grammar/pigeon.peg, grammar/bootstrap.peg",
			"no `//{` at operator level in either grammar text: every `//` there is a comment for all three front-ends",
			strings.Join(bad, "; ")+" - stage 2 (bootstrap-pigeon) skips the line and reproduces pigeon.go, stage 3 (pigeon) reads it as a recovery expression: pigeon can no longer regenerate itself")
	}

	// ---- (3) rule-definition operators, (4) identifiers
	var ops []string
	for _, m := range valLitRe.FindAllStringSubmatch(boot["RuleDefOp"], -1) {
		if s, err := strconv.Unquote(m[1]); err == nil {
			ops = append(ops, s)
		}
	}
	rules, names, err := literalNames(fullGo)
	peg, err2 := os.ReadFile(filepath.Join(repo, "grammar/pigeon.peg"))
	if err != nil || err2 != nil || len(ops) < 2 {
		r.Fatal("%s: cannot read rule names / operators: %v %v (operators of bootstrap.peg: %v)", rule, err, err2, ops)
		return
	}
	var bad []string
	nOps := 0
	for _, lr := range rules {
		if lr.offset < 0 || lr.offset+len(lr.name) > len(peg) || string(peg[lr.offset:lr.offset+len(lr.name)]) != lr.name {
			continue // a stale offset is C20-d's finding
		}
		i := lr.offset + len(lr.name)
		skipLayout := func() {
			for i < len(peg) {
				switch {
				case peg[i] == ' ' || peg[i] == '\t' || peg[i] == '\r' || peg[i] == '\n':
					i++
				case peg[i] == '/' && i+1 < len(peg) && peg[i+1] == '*':
					j := bytes.Index(peg[i+2:], []byte("*/"))
					if j < 0 {
						i = len(peg)
						return
					}
					i += j + 4
				case peg[i] == '/' && i+1 < len(peg) && peg[i+1] == '/':
					j := bytes.IndexByte(peg[i:], '\n')
					if j < 0 {
						i = len(peg)
						return
					}
					i += j + 1
				default:
					return
				}
			}
		}
		skipLayout()
		if i < len(peg) && (peg[i] == '"' || peg[i] == '\'' || peg[i] == '`') {
			q := peg[i]
			i++
			for i < len(peg) && peg[i] != q {
				if peg[i] == '\\' && q != '`' {
					i++
				}
				i++
			}
			i++
			skipLayout()
		}
		nOps++
		found := false
		for _, op := range ops {
			if bytes.HasPrefix(peg[i:], []byte(op)) {
				found = true
			}
		}
		if !found {
			rn, _ := utf8.DecodeRune(peg[i:])
			bad = append(bad, fmt.Sprintf("rule %s of grammar/pigeon.peg is defined with %q, which is not one of the rule-definition operators of grammar/bootstrap.peg %q", lr.name, string(rn), ops))
		}
	}
	r.Check(len(bad) == 0 && nOps >= 40, rule, "A.grammar/pigeon.peg:rule-definition-operators-within-the-previous-stage", "", "grammar/pigeon.peg",
		fmt.Sprintf("%d rules, each defined with one of %q", nOps, ops), strings.Join(bad, "; ")+": stage 2 cannot read the rule")
	identStart, identPart := boot["IdentifierStart"], boot["IdentifierPart"]
	asciiIdent := strings.Contains(identStart, `val="[a-z_]"`) && strings.Contains(identStart, "ignoreCase=true") && strings.Contains(identPart, `val="[0-9]"`)
	if !asciiIdent {
		r.Ok(rule, "A.grammar/pigeon.peg:identifiers-within-the-previous-stage", "", "grammar/pigeon.peg", "bootstrap.peg no longer restricts identifiers to [a-z_]i [0-9]: nothing to compare")
		return
	}
	bad = nil
	idRe := regexp.MustCompile(`^[A-Za-z_][A-Za-z_0-9]*$`)
	for _, nm := range uniq(names) {
		if !idRe.MatchString(nm) {
			bad = append(bad, nm)
		}
	}
	r.Check(len(bad) == 0 && len(names) >= 100, rule, "A.grammar/pigeon.peg:identifiers-within-the-previous-stage", "", "grammar/pigeon.peg",
		fmt.Sprintf("%d rule names, references and labels, all of [A-Za-z_][A-Za-z_0-9]*", len(names)),
		fmt.Sprintf("%s: grammar/pigeon.peg accepts any Unicode letter or digit in identifiers, grammar/bootstrap.peg only [a-z_]i and [0-9]; stage 2 cannot read these names", strings.Join(bad, ", ")))
}

func firstOr(xs []string, d string) string {
	if len(xs) > 0 {
		return xs[0]
	}
	return d
}

// ignoreCaseSuffixAgreement (C20-k): the three front-ends lex the ignore-case suffix alike. In the two grammars the
// suffix of a literal and of a class is the labelled item `ignore:` of LitMatcher / CharClassMatcher; in the
// hand-written scanner it is the `if s.cur == 'i' { … }` after the closing delimiter in each of the routines that scan
// a literal or a class. "Bare" means: an optional literal `i` with no further condition (the grammars), a test of the
// current rune against 'i' and nothing else (the scanner). All sites must be of the same kind: if one of them looks
// at what follows the `i` (e.g. !IdentifierPart) and another does not, `"a"item` is the ignore-case literal followed
// by `tem` for one front-end and the plain literal followed by `item` for the other.
func ignoreCaseSuffixAgreement(c *Ctx, rule string) {
	r := c.R
	g := c.G()
	if g == nil {
		return
	}
	repo := load.Repo()
	kinds := map[string]string{}
	for _, it := range []struct{ name, path string }{
		{"grammar/bootstrap.peg", filepath.Join(repo, "bootstrap/cmd/bootstrap-pigeon/bootstrap_pigeon.go")},
		{"grammar/pigeon.peg", filepath.Join(repo, "pigeon.go")},
	} {
		rules, err := canonRules(it.path)
		if err != nil {
			r.Fatal("%s: %v", rule, err)
			return
		}
		for _, rn := range []string{"LitMatcher", "CharClassMatcher"} {
			expr := rules[rn]
			i := strings.Index(expr, `labeledExpr{label="ignore",expr=`)
			if i < 0 {
				continue
			}
			rest := expr[i+len(`labeledExpr{label="ignore",expr=`):]
			kind := "conditional"
			if strings.HasPrefix(rest, `zeroOrOneExpr{expr=litMatcher{val="i",ignoreCase=false,want="\"i\""}}`) {
				kind = "bare"
			}
			kinds[it.name+":"+rn] = kind
		}
	}
	bp := g.Pkg("bootstrap")
	if bp == nil {
		r.Fatal("%s: package bootstrap not loaded", rule)
		return
	}
	for _, fd := range load.AllFuncDecls(bp) {
		if fd.Body == nil || load.RecvName(fd) != "Scanner" || strings.HasSuffix(g.Fset.Position(fd.Pos()).Filename, "_test.go") {
			continue
		}
		recv := recvName(fd)
		ast.Inspect(fd.Body, func(n ast.Node) bool {
			is, ok := n.(*ast.IfStmt)
			if !ok {
				return true
			}
			cond := nospace(is.Cond)
			if !strings.Contains(cond, recv+".cur=='i'") {
				return true
			}
			kind := "conditional"
			if cond == recv+".cur=='i'" {
				kind = "bare"
			}
			kinds["bootstrap/scan.go:"+fd.Name.Name] = kind
			return true
		})
	}
	var sites []string
	count := map[string]int{}
	for k, v := range kinds {
		sites = append(sites, k+"="+v)
		count[v]++
	}
	sort.Strings(sites)
	r.Analysed["ignore_case_suffix_sites"] = sites
	r.Check(len(count) == 1 && len(kinds) >= 3, rule, "A.front-ends:ignore-case-suffix-lexed-alike", "", "grammar/, bootstrap/scan.go",
		fmt.Sprintf("%d sites (both grammars, the scanner's literal and class routines), all %s", len(kinds), firstOr(keysOfCount(count), "?")),
		fmt.Sprintf("the ignore-case suffix is not lexed alike by the front-ends: %s - where one site looks at what follows the `i` and another takes it unconditionally, `\"a\"item` is an ignore-case literal followed by `tem` for one front-end and a plain literal followed by `item` for the other", strings.Join(sites, ", ")))
}

func keysOfCount(m map[string]int) []string {
	var out []string
	for k := range m {
		out = append(out, k)
	}
	sort.Strings(out)
	return out
}
