package rules

import (
	"fmt"
	"go/ast"
	"go/token"
	"go/types"
	"sort"
	"strings"

	"pigeonverif/internal/load"
)

// This file holds the output-path rules of the generator (builder.go): the small functions that decide whether a
// piece of the parser is written at all. They were added after the mutation sweep showed that the repository's tests
// never compile what the builder emits, so dropping a whole section of the output survives them.

// pev is one event on a structured path through a function body.
type pev struct {
	Kind string // "+" fact assumed on the path (a condition or its negation, in the normal form of canonCond), "call", "assign", "return", "loop", "endloop", "case", "branch"
	Text string // normalised text (nospace)
	Node ast.Node
}

type bpath []pev

func (p bpath) String() string {
	var s []string
	for _, e := range p {
		s = append(s, e.Kind+e.Text)
	}
	return strings.Join(s, " ")
}

// has reports whether the path contains an event of the kind with exactly this text.
func (p bpath) has(kind, text string) bool { return p.index(kind, text, 0) >= 0 }

func (p bpath) index(kind, text string, from int) int {
	// guards are recorded as facts in normal form: "+c" is the fact c, "-c" the fact not-c
	switch kind {
	case "+":
		text = canonText(text, false)
	case "-":
		kind, text = "+", canonText(text, true)
	}
	for i := from; i < len(p); i++ {
		if p[i].Kind == kind && p[i].Text == text {
			return i
		}
	}
	return -1
}

func (p bpath) guards() []string {
	var g []string
	for _, e := range p {
		if e.Kind == "+" || e.Kind == "-" {
			g = append(g, e.Kind+e.Text)
		}
	}
	return g
}

// enumPaths enumerates the structured paths of a block: if/else fork, loops are entered once ("loop"/"endloop"
// events bracket the body), switch clauses fork ("case" event), return ends the path, and so does a break/continue
// that leaves the block (used when the block is a loop body). Calls are recorded in
// evaluation order (arguments before the call). Bounded: more than 4096 paths is reported as nil.
func enumPaths(body *ast.BlockStmt) []bpath {
	type st struct {
		p   bpath
		brk int // > 0: an unlabelled break left the switch at this nesting level; statements are skipped until it ends
	}
	cur := []st{{}}      // live paths
	var finished []bpath // paths that returned or left the block
	var stmts func(list []ast.Stmt)
	addAll := func(evs ...pev) {
		for i := range cur {
			if cur[i].brk == 0 {
				cur[i].p = append(append(bpath{}, cur[i].p...), evs...)
			}
		}
	}
	finish := func() {
		var live []st
		for _, c := range cur {
			if c.brk == 0 {
				finished = append(finished, c.p)
			} else {
				live = append(live, c)
			}
		}
		cur = live
	}
	clone := func(in []st) []st {
		out := make([]st, len(in))
		for i, b := range in {
			out[i] = st{append(bpath{}, b.p...), b.brk}
		}
		return out
	}
	callsOf := func(n ast.Node) []pev {
		var out []pev
		if n == nil {
			return nil
		}
		var walk func(n ast.Node)
		walk = func(n ast.Node) {
			ast.Inspect(n, func(m ast.Node) bool {
				if _, ok := m.(*ast.FuncLit); ok {
					return false
				}
				if ce, ok := m.(*ast.CallExpr); ok {
					for _, a := range ce.Args {
						walk(a)
					}
					walk(ce.Fun)
					out = append(out, pev{"call", nospace(ce), ce})
					return false
				}
				return true
			})
		}
		walk(n)
		return out
	}
	overflow := false
	depth := 0
	swLevel := 0          // nesting level of switch statements
	var swLoopDepth []int // loop depth at which each enclosing switch sits
	var stmt func(s ast.Stmt)
	stmt = func(s ast.Stmt) {
		if overflow {
			return
		}
		switch x := s.(type) {
		case nil:
		case *ast.BlockStmt:
			stmts(x.List)
		case *ast.LabeledStmt:
			stmt(x.Stmt)
		case *ast.ExprStmt:
			addAll(callsOf(x.X)...)
		case *ast.AssignStmt:
			for _, r := range x.Rhs {
				addAll(callsOf(r)...)
			}
			var l, r []string
			for _, e := range x.Lhs {
				l = append(l, nospace(e))
			}
			for _, e := range x.Rhs {
				r = append(r, nospace(e))
			}
			addAll(pev{"assign", strings.Join(l, ",") + x.Tok.String() + strings.Join(r, ","), x})
		case *ast.IncDecStmt:
			addAll(pev{"assign", nospace(x.X) + x.Tok.String(), x})
		case *ast.DeclStmt:
			addAll(callsOf(x)...)
		case *ast.ReturnStmt:
			for _, r := range x.Results {
				addAll(callsOf(r)...)
			}
			var r []string
			for _, e := range x.Results {
				r = append(r, nospace(e))
			}
			addAll(pev{"return", strings.Join(r, ","), x})
			finish()
		case *ast.IfStmt:
			stmt(x.Init)
			addAll(callsOf(x.Cond)...)
			before := cur
			cur = clone(before)
			addAll(pev{"+", canonCond(x.Cond, false), x})
			stmts(x.Body.List)
			thenArm := cur
			cur = clone(before)
			addAll(pev{"+", canonCond(x.Cond, true), x})
			if x.Else != nil {
				stmt(x.Else)
			}
			cur = append(thenArm, cur...)
		case *ast.RangeStmt:
			addAll(callsOf(x.X)...)
			k, v := "", ""
			if x.Key != nil {
				k = nospace(x.Key)
			}
			if x.Value != nil {
				v = nospace(x.Value)
			}
			addAll(pev{"loop", k + "," + v + ":=range " + nospace(x.X), x})
			depth++
			stmts(x.Body.List)
			depth--
			addAll(pev{"endloop", "", x})
		case *ast.ForStmt:
			stmt(x.Init)
			c := ""
			if x.Cond != nil {
				c = nospace(x.Cond)
			}
			addAll(pev{"loop", "for " + c, x})
			depth++
			stmts(x.Body.List)
			stmt(x.Post)
			depth--
			addAll(pev{"endloop", "", x})
		case *ast.SwitchStmt, *ast.TypeSwitchStmt:
			var clauses []ast.Stmt
			if sw, ok := x.(*ast.SwitchStmt); ok {
				stmt(sw.Init)
				if sw.Tag != nil {
					addAll(callsOf(sw.Tag)...)
				}
				clauses = sw.Body.List
			} else {
				clauses = x.(*ast.TypeSwitchStmt).Body.List
			}
			before := cur
			var merged []st
			swLevel++
			swLoopDepth = append(swLoopDepth, depth)
			hasDefault := false
			for _, cl := range clauses {
				cc := cl.(*ast.CaseClause)
				cur = clone(before)
				var es []string
				for _, e := range cc.List {
					es = append(es, nospace(e))
				}
				if cc.List == nil {
					es = []string{"default"}
					hasDefault = true
				}
				addAll(pev{"case", strings.Join(es, ","), cc})
				stmts(cc.Body)
				merged = append(merged, cur...)
			}
			if !hasDefault {
				// no clause taken
				cur = clone(before)
				addAll(pev{"case", "<none>", s})
				merged = append(merged, cur...)
			}
			for i := range merged {
				if merged[i].brk == swLevel {
					merged[i].brk = 0
				}
			}
			swLevel--
			swLoopDepth = swLoopDepth[:len(swLoopDepth)-1]
			cur = merged
		case *ast.DeferStmt:
			addAll(pev{"call", "defer " + nospace(x.Call), x})
		case *ast.BranchStmt:
			lbl := ""
			if x.Label != nil {
				lbl = " " + x.Label.Name
			}
			addAll(pev{"branch", x.Tok.String() + lbl, x})
			// leaving the analysed block (a branch outside any loop of the block, or a labelled one) ends the path;
			// an unlabelled break directly inside a switch clause leaves that switch only; a branch inside a nested loop
			// only ends that loop's single unrolled iteration, which is over-approximated by continuing with the
			// statements after it
			switch {
			case x.Tok == token.BREAK && x.Label == nil && swLevel > 0 && swLoopDepth[len(swLoopDepth)-1] == depth:
				for i := range cur {
					if cur[i].brk == 0 {
						cur[i].brk = swLevel
					}
				}
			case depth == 0 || x.Label != nil:
				finish()
			}
		default:
			addAll(pev{"other", fmt.Sprintf("%T", s), s})
		}
		if len(cur)+len(finished) > 4096 {
			overflow = true
		}
	}
	stmts = func(list []ast.Stmt) {
		for _, s := range list {
			stmt(s)
		}
	}
	stmts(body.List)
	if overflow {
		return nil
	}
	out := append([]bpath{}, finished...)
	for _, c := range cur {
		out = append(out, c.p)
	}
	return out
}

func minInt(a, b int) int {
	if a < b {
		return a
	}
	return b
}

// onlyGuards reports the guards of path p that are not in the allowed set (texts without polarity).
func extraGuards(p bpath, allowed ...string) []string {
	var out []string
	for _, e := range p {
		if e.Kind != "+" && e.Kind != "-" {
			continue
		}
		ok := false
		for _, a := range allowed {
			if e.Text == canonText(a, false) || e.Text == canonText(a, true) {
				ok = true
			}
		}
		if !ok {
			out = append(out, e.Text)
		}
	}
	return out
}

// subsequence returns the first wanted element that is not found in order on the path ("" if all are).
func (p bpath) subsequence(want ...[2]string) string {
	pos := 0
	for _, w := range want {
		i := p.index(w[0], w[1], pos)
		if i < 0 {
			return w[0] + " " + w[1]
		}
		pos = i + 1
	}
	return ""
}

func firstParam(fd *ast.FuncDecl) string {
	if fd.Type.Params == nil || len(fd.Type.Params.List) == 0 || len(fd.Type.Params.List[0].Names) == 0 {
		return ""
	}
	return fd.Type.Params.List[0].Names[0].Name
}

// builderFlow: C04-g .. C04-k.
func builderFlow(c *Ctx, g *load.G) {
	r := c.R
	bp := g.Pkg("builder")
	get := func(recv, name string) *ast.FuncDecl {
		fd := load.FuncDecl(bp, recv, name)
		if fd == nil || fd.Body == nil {
			r.Fatal("anchor builder.%s not found", name)
			return nil
		}
		return fd
	}
	where := func(n ast.Node) string { return g.Where(n.Pos()) }

	// ---- C04-g: the pipeline of BuildParser / buildParser
	// appliesAll: a loop over the option list that applies every element to recv, unconditionally
	appliesAll := func(body ast.Node, list, recv string) *ast.RangeStmt {
		var found *ast.RangeStmt
		ast.Inspect(body, func(n ast.Node) bool {
			if rs, ok2 := n.(*ast.RangeStmt); ok2 && rs.Value != nil && nospace(rs.X) == list {
				for _, ce := range callsIn(rs.Body) {
					if id, ok3 := ce.Fun.(*ast.Ident); ok3 && id.Name == nospace(rs.Value) && len(ce.Args) == 1 && nospace(ce.Args[0]) == recv && len(guardsOf(rs.Body, ce.Pos())) == 0 {
						found = rs
					}
				}
			}
			return true
		})
		return found
	}
	inlineOptions := false
	if fd := load.FuncDecl(bp, "", "BuildParser"); fd != nil && fd.Body != nil && load.FuncDecl(bp, "builder", "setOptions") == nil {
		// the option loop written out in BuildParser itself: top-level statements `for _, opt := range opts { opt(b) }`
		// and, behind it, `return b.buildParser(g)` with the same b
		opts := fd.Type.Params.List[len(fd.Type.Params.List)-1].Names[0].Name
		var bad []string
		iLoop, iRet, recv := -1, -1, ""
		for i, st := range fd.Body.List {
			if rs, ok := st.(*ast.ReturnStmt); ok && len(rs.Results) == 1 {
				if ce, ok := rs.Results[0].(*ast.CallExpr); ok && callSel(ce) == "buildParser" {
					if sel, ok := ce.Fun.(*ast.SelectorExpr); ok {
						iRet, recv = i, nospace(sel.X)
					}
				}
			}
		}
		for i, st := range fd.Body.List {
			if rs, ok := st.(*ast.RangeStmt); ok && recv != "" && appliesAll(rs, opts, recv) == rs {
				iLoop = i
			}
		}
		if iRet < 0 {
			bad = append(bad, "the result of buildParser is not returned")
		} else if iLoop < 0 || iLoop > iRet {
			bad = append(bad, "the options are not applied (setOptions(opts), or a loop `opt("+recv+")` over every option) before buildParser runs: every Option passed by main is ignored")
		}
		for i, st := range fd.Body.List {
			if _, ok := st.(*ast.ReturnStmt); ok && i < iRet {
				bad = append(bad, "BuildParser returns before it builds")
			}
		}
		inlineOptions = true
		r.Check(len(bad) == 0, "C04-g", "G.builder.BuildParser:applies-options-then-builds", "", where(fd), "every option applied to the builder, then return buildParser(g)", strings.Join(bad, "; "))
	}
	if fd := get("", "BuildParser"); fd != nil && !inlineOptions {
		paths := enumPaths(fd.Body)
		var bad []string
		if len(paths) != 1 {
			bad = append(bad, fmt.Sprintf("%d paths, expected a straight line", len(paths)))
		}
		for _, p := range paths {
			// the options are applied to the builder that builds, before it builds
			iOpt, iBuild := -1, -1
			for i, e := range p {
				if ce, ok := e.Node.(*ast.CallExpr); ok && e.Kind == "call" {
					switch callSel(ce) {
					case "setOptions":
						if len(ce.Args) == 1 && nospace(ce.Args[0]) == fd.Type.Params.List[len(fd.Type.Params.List)-1].Names[0].Name {
							iOpt = i
						}
					case "buildParser":
						iBuild = i
					}
				}
			}
			if iOpt < 0 || iBuild < 0 || iOpt > iBuild {
				bad = append(bad, "the options are not applied (setOptions(opts)) before buildParser runs: every Option passed by main is ignored")
			}
			if len(p) == 0 || p[len(p)-1].Kind != "return" || !strings.Contains(p[len(p)-1].Text, "buildParser(") {
				bad = append(bad, "the result of buildParser is not returned")
			}
		}
		r.Check(len(bad) == 0, "C04-g", "G.builder.BuildParser:applies-options-then-builds", "", where(fd), "setOptions(opts) then return buildParser(g)", strings.Join(bad, "; "))
	}
	if inlineOptions {
		// nothing: the loop was checked where it stands
	} else if fd := get("builder", "setOptions"); fd != nil {
		ok := appliesAll(fd.Body, firstParam(fd), recvName(fd)) != nil
		r.Check(ok, "C04-g", "G.builder.setOptions:applies-every-option", "", where(fd), "every option is applied to the receiver", "no unconditional `opt(b)` for every element of the option list")
	}
	if fd := get("builder", "buildParser"); fd != nil {
		b := recvName(fd)
		gp := firstParam(fd)
		paths := c.builderNorm().normPaths(fd)
		var bad []string
		nMain := 0
		verdict := "res0(PrepareGrammar(" + gp + "))"
		for _, p := range paths {
			ret := lastReturn(p)
			// the accepting path is the one that returns b.err (or nil); every other return rejects the grammar
			if !(ret == b+".err" || ret == "nil") {
				if p[len(p)-1].Kind != "return" {
					bad = append(bad, where(p[len(p)-1].Node)+": the path under ["+strings.Join(p.facts(), " ")+"] does not end in a return")
				}
				for _, e := range p {
					if e.Kind == "call" && strings.HasPrefix(e.Text, b+".write") {
						bad = append(bad, where(e.Node)+": output is written on a path that rejects the grammar")
					}
				}
				continue
			}
			nMain++
			miss := p.subsequence(
				[2]string{"call", "PrepareGrammar(" + gp + ")"},
				[2]string{"call", b + ".writeInit(" + gp + ".Init)"},
				[2]string{"call", b + ".writeGrammar(" + gp + ")"},
				[2]string{"loop", "range " + gp + ".Rules"},
				[2]string{"call", b + ".writeRuleCode(" + gp + ".Rules[#1])"},
				[2]string{"endloop", ""},
				[2]string{"call", b + ".writeStaticCode()"},
				[2]string{"return", b + ".err"},
			)
			if miss != "" {
				bad = append(bad, "the accepting path lacks, in order, `"+miss+"` (path: "+abbreviate(p.String())+"): that part of the parser is never written, the output does not compile")
			}
			// the left-recursion verdict of PrepareGrammar reaches the builder flag before anything is written
			iw := p.evIndex("call", 0, func(s string) bool { return strings.HasPrefix(s, b+".write") })
			ia := -1
			for i, e := range p {
				if e.Kind == "set" && strings.HasPrefix(e.Text, b+".haveLeftRecursion=") {
					ia = i
					if v := strings.TrimPrefix(e.Text, b+".haveLeftRecursion="); v != verdict {
						bad = append(bad, where(e.Node)+": b.haveLeftRecursion is assigned "+v+", not the verdict returned by PrepareGrammar")
					}
				}
			}
			if ia < 0 || (iw >= 0 && ia > iw) {
				bad = append(bad, "b.haveLeftRecursion is not set from PrepareGrammar's verdict before the grammar is written: writeRule omits leader/leftRecursive and the template is instantiated without left-recursion support")
			}
		}
		if nMain != 1 {
			bad = append(bad, fmt.Sprintf("%d accepting paths, expected 1", nMain))
		}
		sort.Strings(bad)
		r.Check(len(bad) == 0, "C04-g", "G.builder.buildParser:writes-every-section-in-order", "", where(fd),
			"PrepareGrammar → haveLeftRecursion → writeInit → writeGrammar → writeRuleCode per rule → writeStaticCode → return b.err; error paths write nothing", strings.Join(uniq(bad), "; "))
	}

	// ---- C04-h: every builder field that is read has a writer that can store a non-zero value
	builderFieldWriters(c, g)

	// ---- C04-i: the three write primitives
	for _, prim := range []struct{ name, sink string }{{"writef", "fmt.Fprintf"}, {"writeln", "fmt.Fprint"}} {
		fd := get("builder", prim.name)
		if fd == nil {
			continue
		}
		b := recvName(fd)
		f := firstParam(fd)
		// writeln as a forwarder: its whole body hands the text, followed by a line end, to writef (checked above)
		if prim.name == "writeln" && len(fd.Body.List) == 1 {
			if es, ok := fd.Body.List[0].(*ast.ExprStmt); ok {
				if ce, ok := es.X.(*ast.CallExpr); ok && nospace(ce.Fun) == b+".writef" && len(ce.Args) == 2 && !ce.Ellipsis.IsValid() &&
					(nospace(ce.Args[0]) == `"%s\n"` || nospace(ce.Args[0]) == "`%s\n`") && nospace(ce.Args[1]) == f {
					r.Ok("C04-i", "G.builder."+prim.name+":writes-unless-failed", "", where(fd), "forwards its text and a line end to writef, which writes exactly when no earlier write failed and keeps the error")
					continue
				}
			}
		}
		paths := enumPaths(fd.Body)
		var bad []string
		nWrite := 0
		for _, p := range paths {
			if x := extraGuards(p, b+".err==nil", b+".err!=nil"); len(x) > 0 {
				bad = append(bad, "output is conditional on `"+strings.Join(x, "`, `")+"`")
			}
			clean := p.has("+", b+".err==nil") || p.has("-", b+".err!=nil")
			wrote := false
			for _, e := range p {
				ce, ok := e.Node.(*ast.CallExpr)
				if e.Kind != "call" || !ok || callName(ce) != prim.sink {
					continue
				}
				wrote = true
				if len(ce.Args) < 2 || nospace(ce.Args[0]) != b+".w" {
					bad = append(bad, where(ce)+": writes to "+nospace(ce.Args[0])+" instead of "+b+".w")
				}
				if len(ce.Args) >= 2 {
					a1 := nospace(ce.Args[1])
					if prim.name == "writef" && a1 != f || prim.name == "writeln" && a1 != f+`+"\n"` {
						bad = append(bad, where(ce)+": writes "+a1+" instead of the text it was given")
					}
				}
				if prim.name == "writef" && (len(ce.Args) != 3 || !ce.Ellipsis.IsValid()) {
					bad = append(bad, where(ce)+": the format arguments are not forwarded")
				}
				// the error of the write is kept
				kept := false
				for _, e2 := range p {
					if as, ok := e2.Node.(*ast.AssignStmt); ok && e2.Kind == "assign" && contains(as, ce.Pos()) && len(as.Lhs) == 2 && nospace(as.Lhs[1]) == b+".err" {
						kept = true
					}
				}
				if !kept {
					bad = append(bad, where(ce)+": the error of the write is not stored in "+b+".err, so BuildParser reports success for a truncated file")
				}
			}
			if clean && !wrote {
				bad = append(bad, "nothing is written although no earlier write failed (path: "+abbreviate(p.String())+")")
			}
			if !clean && wrote {
				bad = append(bad, "writes after an earlier write failed")
			}
			if wrote {
				nWrite++
			}
		}
		if nWrite == 0 {
			bad = append(bad, "never writes")
		}
		sort.Strings(bad)
		r.Check(len(bad) == 0, "C04-i", "G.builder."+prim.name+":writes-unless-failed", "", where(fd), "writes its text to b.w exactly when no earlier write failed, and keeps the error", strings.Join(uniq(bad), "; "))
	}
	if fd := get("builder", "writelnf"); fd != nil {
		b := recvName(fd)
		paths := enumPaths(fd.Body)
		ok := len(paths) == 1
		if ok {
			ok = false
			for _, e := range paths[0] {
				if ce, ok2 := e.Node.(*ast.CallExpr); ok2 && e.Kind == "call" && callName(ce) == b+".writef" && len(ce.Args) == 2 && nospace(ce.Args[0]) == firstParam(fd)+`+"\n"` && ce.Ellipsis.IsValid() {
					ok = true
				}
			}
		}
		r.Check(ok, "C04-i", "G.builder.writelnf:forwards-to-writef", "", where(fd), `writef(f+"\n", args...) unconditionally`, "does not forward its format plus newline and its arguments to writef on its only path")
	}

	// ---- C04-i (formats): what writef / writelnf interpret as a format is never grammar text. The format argument of
	// every call resolves - through locals, parameters (at all call sites) and concatenation - to string constants and
	// package-level template variables with a constant initialiser that nothing assigns to
	{
		fl := newFlow(bp, nil)
		assignedVars := map[types.Object]bool{}
		for _, fd := range load.AllFuncDecls(bp) {
			if fd.Body == nil {
				continue
			}
			ast.Inspect(fd.Body, func(n ast.Node) bool {
				if as, ok := n.(*ast.AssignStmt); ok {
					for _, l := range as.Lhs {
						if id, ok := l.(*ast.Ident); ok {
							if o, ok := bp.TypesInfo.Uses[id].(*types.Var); ok && o.Parent() == bp.Types.Scope() {
								assignedVars[o] = true
							}
						}
					}
				}
				return true
			})
		}
		var fixedText func(e ast.Expr, in *ast.FuncDecl, depth int) string // "" = fixed; otherwise what is not
		fixedText = func(e ast.Expr, in *ast.FuncDecl, depth int) string {
			if depth > 6 {
				return nospace(e)
			}
			if tv, ok := bp.TypesInfo.Types[e]; ok && tv.Value != nil {
				return ""
			}
			switch x := stripParens(e).(type) {
			case *ast.BinaryExpr:
				if x.Op == token.ADD {
					if w := fixedText(x.X, in, depth+1); w != "" {
						return w
					}
					return fixedText(x.Y, in, depth+1)
				}
			case *ast.Ident:
				if o, ok := bp.TypesInfo.Uses[x].(*types.Var); ok && o.Parent() == bp.Types.Scope() {
					if _, isConstInit := pkgStringVar(bp, x.Name); isConstInit && !assignedVars[o] {
						return ""
					}
					return x.Name + " (a package variable that is assigned, or has no constant initialiser)"
				}
				for _, o := range fl.origins(x, in, 0) {
					if id, same := o.Expr.(*ast.Ident); same && id == x {
						return nospace(x)
					}
					if w := fixedText(o.Expr, o.Fd, depth+1); w != "" {
						return w
					}
				}
				return ""
			}
			return nospace(e)
		}
		var bad []string
		n := 0
		for _, fd := range load.AllFuncDecls(bp) {
			if fd.Body == nil {
				continue
			}
			for _, ce := range callsIn(fd.Body) {
				se, ok := ce.Fun.(*ast.SelectorExpr)
				if !ok || (se.Sel.Name != "writef" && se.Sel.Name != "writelnf") || len(ce.Args) == 0 {
					continue
				}
				if namedOf(bp.TypesInfo.TypeOf(se.X)) != "builder" {
					continue
				}
				n++
				if w := fixedText(ce.Args[0], fd, 0); w != "" {
					bad = append(bad, where(ce)+": the format of "+se.Sel.Name+" contains "+abbreviate(w)+": text from the grammar would be interpreted as a format (a `%` in a code block becomes %!x(MISSING) in the output)")
				}
			}
		}
		r.Check(len(bad) == 0 && n > 20, "C04-i", "G.builder:emission-formats-are-fixed-text", "", "builder/builder.go", fmt.Sprintf("%d writef/writelnf calls, every format is fixed text", n), strings.Join(uniq(bad), "; "))
	}

	// ---- C04-j: code writers
	ro := c.writeFuncRoles()
	for _, cw := range []struct{ fn string }{{"writeActionExprCode"}, {"writeAndCodeExprCode"}, {"writeNotCodeExprCode"}, {"writeStateCodeExprCode"}} {
		fd := get("builder", cw.fn)
		if fd == nil {
			continue
		}
		if ro.Why != "" {
			r.Bad("C04-j", "G.builder."+cw.fn+":defines-pending-method-once", "", where(fd), ro.Why)
			continue
		}
		b, x := recvName(fd), firstParam(fd)
		var bad []string
		nDef := 0
		wantCall := "writeFunc with " + ro.Names[ro.Ix] + "=" + x + ".FuncIx, " + ro.Names[ro.Code] + "=" + x + ".Code, a definition template and the call template of the same result type"
		for _, p := range c.builderNorm().normPaths(fd) {
			if of := p.otherFacts(x+"==nil", x+".FuncIx>0", x+".FuncIx!=0", x+"!=nil&&"+x+".FuncIx>0", x+"!=nil&&"+x+".FuncIx!=0"); len(of) > 0 {
				bad = append(bad, "the definition depends on `"+strings.Join(of, "`, `")+"`")
				continue
			}
			iw := p.evIndex("call", 0, func(t string) bool { return strings.HasPrefix(t, b+".writeFunc(") })
			present := p.holds(x + "!=nil")
			pending := p.holds(x+".FuncIx>0") || p.holds(x+".FuncIx!=0")
			if iw >= 0 {
				args := splitTop(strings.TrimSuffix(strings.TrimPrefix(p[iw].Text, b+".writeFunc("), ")"), ",")
				okCall := len(args) == 4 && args[ro.Ix] == x+".FuncIx" && args[ro.Code] == x+".Code"
				if okCall {
					sd, rd := c.templateShape(args[ro.Def])
					sc, rc := c.templateShape(args[ro.Call])
					okCall = sd == "def" && sc == "call" && rd == rc && rd != ""
				}
				if !okCall {
					bad = append(bad, where(p[iw].Node)+": writeFunc is called as "+abbreviate(p[iw].Text)+", expected "+wantCall)
				}
				if !present || !pending {
					bad = append(bad, "the method is written on a path that does not establish a present node with a pending method ["+strings.Join(p.facts(), " ")+"]")
				}
				nDef++
				if p.evIndex("set", iw, func(t string) bool { return t == x+".FuncIx=0" }) < 0 {
					bad = append(bad, "FuncIx is not cleared after the method was written: a node reached twice (shared by the optimizer) defines the method twice")
				}
				continue
			}
			// nothing is written: the node must be absent or its method already written
			if present && pending {
				bad = append(bad, "a node whose method is still pending (FuncIx != 0) does not get `"+wantCall+"`: the grammar literal references a method that is never defined")
			}
			if !(p.holds(x+"==nil") || p.holds(x+".FuncIx<=0") || p.holds(x+".FuncIx==0") || p.refutes(x+"!=nil&&"+x+".FuncIx>0") || p.refutes(x+"!=nil&&"+x+".FuncIx!=0")) {
				bad = append(bad, "a path writes nothing without establishing that there is nothing to write ["+strings.Join(p.facts(), " ")+"]")
			}
			for _, e := range p {
				if p.holds(x+"==nil") && (e.Kind == "call" || e.Kind == "set") {
					bad = append(bad, where(e.Node)+": uses the node on the path where it is nil")
				}
			}
		}
		if nDef == 0 {
			bad = append(bad, "no path defines the method")
		}
		sort.Strings(bad)
		r.Check(len(bad) == 0, "C04-j", "G.builder."+cw.fn+":defines-pending-method-once", "", where(fd), "nil → nothing; FuncIx != 0 → writeFunc(FuncIx, Code, matching templates) then FuncIx = 0", strings.Join(uniq(bad), "; "))
	}
	if fd := get("builder", "writeInit"); fd != nil {
		b, x := recvName(fd), firstParam(fd)
		var bad []string
		n := 0
		for _, p := range enumPaths(fd.Body) {
			if eg := extraGuards(p, x+"==nil", x+"!=nil"); len(eg) > 0 {
				bad = append(bad, "the initializer is written only under `"+strings.Join(eg, "`, `")+"`")
			}
			isNil := p.has("+", x+"==nil") || p.has("-", x+"!=nil")
			wrote := false
			for _, e := range p {
				if e.Kind == "call" && strings.HasPrefix(e.Text, b+".write") {
					wrote = true
				}
				if isNil && (e.Kind == "call" || e.Kind == "assign") {
					bad = append(bad, where(e.Node)+": uses the code block on the path where it is nil")
				}
			}
			if !isNil && !wrote {
				bad = append(bad, "a present initializer block is not written (path: "+abbreviate(p.String())+")")
			}
			if !isNil && wrote {
				n++
			}
		}
		if n == 0 {
			bad = append(bad, "no path writes the initializer")
		}
		r.Check(len(bad) == 0, "C04-j", "G.builder.writeInit:writes-present-initializer", "", where(fd), "nil → nothing, otherwise the block is written", strings.Join(uniq(bad), "; "))
	}
	for _, fn := range []string{"writeRuleCode", "writeRule"} {
		fd := get("builder", fn)
		if fd == nil {
			continue
		}
		x := firstParam(fd)
		cond := x + "==nil||" + x + ".Name==nil"
		var bad []string
		n := 0
		for _, p := range enumPaths(fd.Body) {
			skip := p.has("+", cond)
			if !skip && !p.has("-", cond) {
				bad = append(bad, "no `"+cond+"` test on path "+abbreviate(p.String()))
			}
			work := false
			for _, e := range p {
				if e.Kind == "call" {
					work = true
					if skip {
						bad = append(bad, where(e.Node)+": works on a nil rule")
					}
				}
			}
			if !skip && !work {
				bad = append(bad, "a present rule is skipped")
			}
			if !skip && work {
				n++
			}
		}
		if n == 0 {
			bad = append(bad, "no path handles a present rule")
		}
		r.Check(len(bad) == 0, "C04-j", "G.builder."+fn+":handles-every-present-rule", "", where(fd), "skips exactly nil rules / rules without name", strings.Join(uniq(bad), "; "))
	}
	if fd := get("builder", "addArg"); fd != nil {
		bad := argStackProblems(c, get)["addArg"]
		r.Check(len(bad) == 0, "C04-j", "G.builder.addArg:registers-every-label-in-the-innermost-scope", "", where(fd), "nil → nothing; otherwise appended to argsStack[top] unconditionally", strings.Join(uniq(bad), "; "))
	}
	// the braces of a code block are stripped, nothing else: <X>.Val[1 : len(<X>.Val)-1]
	for _, fn := range []string{"writeInit", "writeFunc"} {
		fd := get("builder", fn)
		if fd == nil {
			continue
		}
		n := 0
		var bad []string
		scope := &ast.BlockStmt{}
		for _, h := range withHelpers(g.Pkg("builder"), fd, "writeExpr", "writeExprCode") {
			scope.List = append(scope.List, h.Body)
		}
		// the block text may be kept in a local first (`block := strings.TrimSpace(code.Val); body := block[1:…]`)
		localDef := map[string]string{}
		localCnt := map[string]int{}
		ast.Inspect(scope, func(nd ast.Node) bool {
			if as, ok := nd.(*ast.AssignStmt); ok && len(as.Lhs) == len(as.Rhs) {
				for k, l := range as.Lhs {
					if id, ok := l.(*ast.Ident); ok {
						localCnt[id.Name]++
						localDef[id.Name] = nospace(as.Rhs[k])
					}
				}
			}
			return true
		})
		ast.Inspect(scope, func(nd ast.Node) bool {
			se, ok := nd.(*ast.SliceExpr)
			if !ok {
				return true
			}
			alias := ""
			if id, isId := se.X.(*ast.Ident); isId && localCnt[id.Name] == 1 && strings.Contains(localDef[id.Name], ".Val") && !strings.Contains(localDef[id.Name], "[") {
				alias = id.Name
			}
			if alias == "" && !strings.Contains(nospace(se.X), ".Val") {
				return true
			}
			n++
			base := nospace(se.X)
			if alias != "" {
				base = localDef[alias]
			}
			if strings.HasPrefix(base, "strings.TrimSpace(") {
				base = strings.TrimSuffix(strings.TrimPrefix(base, "strings.TrimSpace("), ")")
			}
			lo, hi := "", ""
			if se.Low != nil {
				lo = nospace(se.Low)
			}
			if se.High != nil {
				hi = nospace(se.High)
			}
			if lo != "1" || (hi != "len("+base+")-1" && !(alias != "" && hi == "len("+alias+")-1")) {
				bad = append(bad, where(se)+": the block text is "+nospace(se)+", expected "+base+"[1:len("+base+")-1] (the text between the braces): a brace that stays, or a byte of code that goes, makes the emitted file not compile")
			}
			return true
		})
		r.Check(len(bad) == 0 && n == 1, "C04-j", "G.builder."+fn+":strips-exactly-the-braces", "", where(fd), "Val[1:len(Val)-1]", fmt.Sprintf("%d slice expressions on the block text; %s", n, strings.Join(bad, "; ")))
	}
	builderWriteFunc(c, g)
	builderExprCode(c, g)
}

func uniq(s []string) []string {
	sort.Strings(s)
	var out []string
	for i, x := range s {
		if i == 0 || x != s[i-1] {
			out = append(out, x)
		}
	}
	return out
}

// definedFromCall: local `name` is defined by `name, ... := callee(...)`.
func definedFromCall(fd *ast.FuncDecl, name, callee string) bool {
	ok := false
	ast.Inspect(fd.Body, func(n ast.Node) bool {
		as, isAs := n.(*ast.AssignStmt)
		if !isAs || len(as.Rhs) != 1 {
			return true
		}
		ce, isCall := as.Rhs[0].(*ast.CallExpr)
		if !isCall || callSel(ce) != callee {
			return true
		}
		for _, l := range as.Lhs {
			if nospace(l) == name {
				ok = true
			}
		}
		return true
	})
	return ok
}

// builderFieldWriters (C04-h): every field of the builder struct that some function reads must have a store that
// can put a non-zero value into it (an assignment or composite-literal key whose value is not the zero constant).
func builderFieldWriters(c *Ctx, g *load.G) {
	r := c.R
	bp := g.Pkg("builder")
	obj := bp.Types.Scope().Lookup("builder")
	if obj == nil {
		r.Fatal("type builder.builder not found")
		return
	}
	stt, ok := obj.Type().Underlying().(*types.Struct)
	if !ok {
		r.Fatal("builder.builder is not a struct")
		return
	}
	fields := map[*types.Var]bool{}
	for i := 0; i < stt.NumFields(); i++ {
		fields[stt.Field(i)] = true
	}
	reads := map[*types.Var]int{}
	writes := map[*types.Var][]string{}
	info := bp.TypesInfo
	isZero := func(e ast.Expr) bool {
		tv, ok := info.Types[e]
		if ok && tv.Value != nil {
			s := tv.Value.ExactString()
			return s == "false" || s == "0" || s == `""`
		}
		return ok && tv.IsNil()
	}
	for _, f := range bp.Syntax {
		lhs := map[ast.Expr]bool{}
		ast.Inspect(f, func(n ast.Node) bool {
			switch x := n.(type) {
			case *ast.AssignStmt:
				for i, l := range x.Lhs {
					se, ok := l.(*ast.SelectorExpr)
					if !ok {
						continue
					}
					v, _ := info.Uses[se.Sel].(*types.Var)
					if v == nil || !fields[v] {
						continue
					}
					lhs[se] = true
					if x.Tok != token.ASSIGN && x.Tok != token.DEFINE {
						writes[v] = append(writes[v], "op")
						continue
					}
					var rhs ast.Expr
					if len(x.Rhs) == len(x.Lhs) {
						rhs = x.Rhs[i]
					}
					if rhs == nil || !isZero(rhs) {
						writes[v] = append(writes[v], "nonzero")
					} else {
						writes[v] = append(writes[v], "zero")
					}
				}
			case *ast.IncDecStmt:
				if se, ok := x.X.(*ast.SelectorExpr); ok {
					if v, _ := info.Uses[se.Sel].(*types.Var); v != nil && fields[v] {
						lhs[se] = true
						writes[v] = append(writes[v], "nonzero")
					}
				}
			case *ast.KeyValueExpr:
				if id, ok := x.Key.(*ast.Ident); ok {
					if v, _ := info.Uses[id].(*types.Var); v != nil && fields[v] {
						if isZero(x.Value) {
							writes[v] = append(writes[v], "zero")
						} else {
							writes[v] = append(writes[v], "nonzero")
						}
					}
				}
			}
			return true
		})
		ast.Inspect(f, func(n ast.Node) bool {
			if se, ok := n.(*ast.SelectorExpr); ok && !lhs[se] {
				if v, _ := info.Uses[se.Sel].(*types.Var); v != nil && fields[v] {
					reads[v]++
				}
			}
			return true
		})
	}
	n := 0
	for i := 0; i < stt.NumFields(); i++ {
		v := stt.Field(i)
		if reads[v] == 0 {
			continue
		}
		n++
		nz := 0
		for _, w := range writes[v] {
			if w != "zero" {
				nz++
			}
		}
		r.Check(nz > 0, "C04-h", "G.builder.builder."+v.Name()+":has-effective-writer", "", g.Where(v.Pos()),
			fmt.Sprintf("read %d times, %d stores of a possibly non-zero value", reads[v], nz),
			fmt.Sprintf("the field is read %d times but no store can give it a non-zero value (stores: %v): every reader sees the zero value, whatever the grammar or the flags say", reads[v], writes[v]))
	}
	_ = n
	r.MinRule("C04-h", 6)
}

// builderWriteFunc (C04-j): parameter list and argument list of an emitted method (see writeFuncSemantics).
func builderWriteFunc(c *Ctx, g *load.G) {
	r := c.R
	fd := load.FuncDecl(g.Pkg("builder"), "builder", "writeFunc")
	if fd == nil {
		r.Fatal("anchor builder.writeFunc not found")
		return
	}
	wfp := writeFuncSemantics(c)
	var bad []string
	for _, k := range []string{"pair", "name", "same-list", "lists"} {
		bad = append(bad, wfp[k]...)
	}
	r.Check(len(bad) == 0, "C04-j", "G.builder.writeFunc:parameter-and-argument-lists", "", g.Where(fd.Pos()),
		"both lists enumerate every label of the innermost scope, comma-separated, ` any` suffix iff non-empty, definition and stub both emitted", strings.Join(uniq(bad), "; "))
}

// builderExprCode (C04-k): per kind, writeExprCode visits every Expression child, calls the code writer of a code kind
// and registers the label of a labeled expression in the enclosing scope, unconditionally.
func builderExprCode(c *Ctx, g *load.G) {
	r := c.R
	bp := g.Pkg("builder")
	fd := load.FuncDecl(bp, "builder", "writeExprCode")
	if fd == nil {
		r.Fatal("anchor builder.writeExprCode not found")
		return
	}
	b := recvName(fd)
	si := typeSwitchOn(fd, firstParam(fd))
	if !si.HasSwitch {
		r.Unk("C04-k", "G.builder.writeExprCode:type-switch", "", g.Where(fd.Pos()), "no type switch on the expression parameter")
		return
	}
	kinds, _ := c.exprKinds()
	codeWriter := map[string]string{"ActionExpr": "writeActionExprCode", "AndCodeExpr": "writeAndCodeExprCode", "NotCodeExpr": "writeNotCodeExprCode", "StateCodeExpr": "writeStateCodeExprCode"}
	n := 0
	for _, k := range kinds {
		cw := codeWriter[k.Name]
		if len(k.Children) == 0 && cw == "" {
			continue
		}
		n++
		construct := "G.builder.writeExprCode:kind=" + k.Name
		cc := si.Cases[k.Name]
		if cc == nil {
			r.Bad("C04-k", construct, "", g.Where(fd.Pos()), "no case for *"+k.Name+": the methods of code blocks inside it are never defined")
			continue
		}
		v := firstParam(fd) // the switched value (the variable bound by the type switch is rendered as it)
		var bad []string
		paths := c.builderNorm().normBlock(fd, cc.Body)
		for _, p := range paths {
			if gs := p.facts(); len(gs) > 0 {
				bad = append(bad, "the case is conditional on "+strings.Join(gs, " "))
			}
			for _, ch := range k.Children {
				found := p.hasCall(b + ".writeExprCode(" + v + "." + ch + ")")
				if lo, hi := loopSpan(p, "range "+v+"."+ch); lo >= 0 {
					for i := lo + 1; i < hi && i < len(p); i++ {
						if p[i].Kind == "call" && strings.HasPrefix(p[i].Text, b+".writeExprCode("+v+"."+ch+"[#") {
							found = true
						}
						if p[i].Kind == "branch" {
							found = false
							break
						}
					}
				}
				if !found {
					bad = append(bad, "child "+ch+" is not visited: methods of code blocks inside it are referenced by the grammar literal but never defined")
				}
			}
			if cw != "" && !p.hasCall(b+"."+cw+"("+v+")") {
				bad = append(bad, cw+"("+v+") is not called: the method of this code block is never defined")
			}
			if k.Name == "LabeledExpr" {
				ia := p.evIndex("call", 0, func(t string) bool { return t == b+".addArg("+v+".Label)" })
				ip := p.evIndex("call", 0, func(t string) bool { return t == b+".pushArgsSet()" })
				if ia < 0 || (ip >= 0 && ia > ip) {
					bad = append(bad, "the label is not registered (addArg("+v+".Label)) in the enclosing scope before the operand's scope opens: code blocks do not receive it")
				}
			}
		}
		if len(paths) == 0 {
			bad = append(bad, "no path")
		}
		r.Check(len(bad) == 0, "C04-k", construct, "", g.Where(cc.Pos()), fmt.Sprintf("visits %d children unconditionally%s", len(k.Children), map[bool]string{true: ", calls " + cw, false: ""}[cw != ""]), strings.Join(uniq(bad), "; "))
	}
	_ = n
	r.MinRule("C04-k", 13)
}
