package rules

import (
	"fmt"
	"go/ast"
	"go/types"
	"sort"
	"strings"

	"pigeonverif/internal/load"
)

// c20Precedence (C20-h): the hand-written bootstrap parser realises the same binding strength as the grammars
// (C03-b for the generated front-end): choice < action < sequence < label < prefix < suffix < primary.
// Levels are recognised by what a method builds (the ast constructors it calls), not by its name; for every level the
// operand must come from the method of the next tighter level, and the primary level re-enters the loosest one.
func c20Precedence(c *Ctx, rule string) {
	r := c.R
	g := c.G()
	if g == nil {
		return
	}
	bp := g.Pkg("bootstrap")
	if bp == nil {
		r.Fatal("package bootstrap not loaded")
		return
	}
	levels := []struct {
		name  string
		ctors []string
	}{
		{"choice", []string{"NewChoiceExpr"}},
		{"action", []string{"NewActionExpr"}},
		{"sequence", []string{"NewSeqExpr"}},
		{"label", []string{"NewLabeledExpr"}},
		{"prefix", []string{"NewAndExpr", "NewNotExpr"}},
		{"suffix", []string{"NewZeroOrOneExpr", "NewZeroOrMoreExpr", "NewOneOrMoreExpr"}},
		{"primary", []string{"NewLitMatcher", "NewCharClassMatcher", "NewAnyMatcher"}},
	}
	levelOfCtor := map[string]int{}
	for i, l := range levels {
		for _, ct := range l.ctors {
			levelOfCtor[ct] = i
		}
	}
	// the units of the package: parser methods, plain functions, package-level variables (a table of constructors)
	info := bp.TypesInfo
	decls := map[types.Object]*ast.FuncDecl{}
	unitBody := map[types.Object]ast.Node{} // plain functions and package variables: what a method may build through them
	var methods []*ast.FuncDecl
	for _, f := range bp.Syntax {
		for _, d := range f.Decls {
			switch x := d.(type) {
			case *ast.FuncDecl:
				if x.Body == nil {
					continue
				}
				if x.Recv != nil {
					if strings.HasSuffix(g.Fset.Position(f.Pos()).Filename, "/bootstrap/parser.go") || true {
						methods = append(methods, x)
						decls[info.Defs[x.Name]] = x
					}
				} else {
					unitBody[info.Defs[x.Name]] = x.Body
				}
			case *ast.GenDecl:
				for _, sp := range x.Specs {
					if vs, ok := sp.(*ast.ValueSpec); ok {
						for i, nm := range vs.Names {
							if i < len(vs.Values) {
								unitBody[info.Defs[nm]] = vs.Values[i]
							}
						}
					}
				}
			}
		}
	}
	ctorLevels := func(n ast.Node) map[int]bool {
		out := map[int]bool{}
		seen := map[types.Object]bool{}
		var visit func(n ast.Node)
		visit = func(n ast.Node) {
			ast.Inspect(n, func(m ast.Node) bool {
				switch x := m.(type) {
				case *ast.SelectorExpr:
					if pk, ok := x.X.(*ast.Ident); ok {
						if pn, ok := info.Uses[pk].(*types.PkgName); ok && strings.HasSuffix(pn.Imported().Path(), "/ast") {
							if lv, ok := levelOfCtor[x.Sel.Name]; ok {
								out[lv] = true
							}
						}
					}
				case *ast.Ident:
					if o := info.Uses[x]; o != nil && !seen[o] {
						if body, ok := unitBody[o]; ok {
							seen[o] = true
							visit(body)
						}
					}
				}
				return true
			})
		}
		visit(n)
		return out
	}
	calledMethods := func(fd *ast.FuncDecl) []*ast.FuncDecl {
		var out []*ast.FuncDecl
		for _, ce := range callsIn(fd.Body) {
			if sel, ok := ce.Fun.(*ast.SelectorExpr); ok {
				if d := decls[info.Uses[sel.Sel]]; d != nil && d != fd {
					out = append(out, d)
				}
			}
		}
		return out
	}
	built := map[*ast.FuncDecl]map[int]bool{}
	byLevel := map[int][]*ast.FuncDecl{}
	for _, fd := range methods {
		lv := ctorLevels(fd.Body)
		if len(lv) == 0 {
			continue
		}
		built[fd] = lv
		for l := range lv {
			byLevel[l] = append(byLevel[l], fd)
		}
	}
	levelFn := map[int]*ast.FuncDecl{}
	fnLevel := map[*ast.FuncDecl]int{}
	var bad []string
	for i, l := range levels {
		group := byLevel[i]
		// a method that only helps another method of the same level (called by it) is part of that method
		var roots []*ast.FuncDecl
		for _, fd := range group {
			helper := false
			for _, other := range group {
				if other == fd {
					continue
				}
				for _, cm := range calledMethods(other) {
					if cm == fd {
						helper = true
					}
				}
			}
			if !helper {
				roots = append(roots, fd)
			}
		}
		switch len(roots) {
		case 0:
			bad = append(bad, "no parser method builds "+l.name+" nodes")
		case 1:
			levelFn[i] = roots[0]
			fnLevel[roots[0]] = i
		default:
			var ns []string
			for _, fd := range roots {
				ns = append(ns, fd.Name.Name)
			}
			sort.Strings(ns)
			bad = append(bad, fmt.Sprintf("%s nodes are built by several independent methods (%s)", l.name, strings.Join(ns, ", ")))
		}
	}
	for fd, lv := range built {
		if _, isRoot := fnLevel[fd]; isRoot && len(lv) > 1 {
			var ls []string
			for l := range lv {
				ls = append(ls, levels[l].name)
			}
			sort.Strings(ls)
			bad = append(bad, fmt.Sprintf("%s builds nodes of several precedence levels (%s)", fd.Name.Name, strings.Join(ls, ", ")))
		}
	}
	if len(bad) == 0 {
		// the level methods a method calls, directly or through methods that are not the root of a level
		var reach func(fd *ast.FuncDecl, seen map[*ast.FuncDecl]bool) map[int]bool
		reach = func(fd *ast.FuncDecl, seen map[*ast.FuncDecl]bool) map[int]bool {
			out := map[int]bool{}
			for _, d := range calledMethods(fd) {
				if seen[d] {
					continue
				}
				if lv, isLevel := fnLevel[d]; isLevel {
					out[lv] = true
					continue
				}
				seen[d] = true
				for lv := range reach(d, seen) {
					out[lv] = true
				}
			}
			return out
		}
		for i, l := range levels {
			got := reach(levelFn[i], map[*ast.FuncDecl]bool{levelFn[i]: true})
			want := i + 1
			if i == len(levels)-1 {
				want = 0
			}
			var gl []string
			for lv := range got {
				gl = append(gl, levels[lv].name)
			}
			sort.Strings(gl)
			if len(got) != 1 || !got[want] {
				bad = append(bad, fmt.Sprintf("%s (%s level) takes its operands from the level(s) [%s], expected exactly the %s level: the hand-written front-end binds operators differently from the grammars (for example &x+ would be (&x)+ instead of &(x+))", levelFn[i].Name.Name, l.name, strings.Join(gl, ", "), levels[want].name))
			}
		}
	}
	sort.Strings(bad)
	where := "bootstrap/parser.go"
	r.Check(len(bad) == 0, rule, "G.bootstrap.Parser:precedence-chain", "", where, "choice → action → sequence → label → prefix → suffix → primary → (choice), recognised by the node constructors each method calls", strings.Join(bad, "; "))
	_ = load.Mod
}
