package rules

import (
	"fmt"
	"go/ast"
	"go/token"
	"go/types"
	"sort"
	"strings"

	"pigeonverif/internal/variants"
)

// C18 — concurrent parses with one generated parser are isolated.
func C18(c *Ctx) {
	r := c.R
	r.Technique = "ownership / effect analysis on the type-checked runtime of all 16 variants: type-resolved scan of every store (fields of grammar-node types, package-level variables), escape rules for the per-call *parser, pool discipline and linear clone tokens (typestate)"
	r.Explanation = "Complete ownership argument for the runtime: (a) no function of the runtime stores to a package-level variable or to a field/element of a grammar-node type, so the tree under g is immutable after package initialisation; (b) the only shared mutable object is statePool (a sync.Pool): a dict is Put only in Discard after all its keys were deleted, restoreState overwrites the discarded dict's only reference, and clone tokens are linear, so no dict is live and pooled at once; (c) all other mutable state is reached only through the *parser allocated per call in newParser, which is never stored in a global, a grammar node or sent to another goroutine, and the runtime starts no goroutines. User code blocks and a user-shared *Stats are outside the claim."
	r.Assumptions = []string{"sync.Pool is safe for concurrent use", "user code blocks do not share mutable data between calls"}
	r.Rule("C18-a", "no store (assignment, op-assignment, ++/--, element store, address-of) targets a field of a grammar-node type or a package-level variable anywhere in the runtime")
	r.Rule("C18-b", "statePool.Put occurs only in Discard after clearing; restoreState = Discard old; install clone; clone tokens are restored at most once per path")
	r.Rule("C18-c", "no go statement; no value of type *parser is stored outside locals/parameters (not in package variables, struct fields or sent on channels); newParser's result is used only as the receiver of parse in Parse")
	r.Rule("C18-d", "Option values are immutable: the closure returned by an option constructor stores only through its *parser parameter or into variables declared inside the closure - never into a captured variable (a constructor parameter), so one Option value may be passed to concurrent Parse calls")
	r.Rule("C18-e", "pooled storage stays inside the call that took it: a value obtained from a package-level sync.Pool other than the state pool (whose life cycle is C18-b) - the value itself, its Bytes() or a slice of it - is not returned, not stored and not passed to another function, so nothing a Parse call hands back (matched text is a slice of the input) can lie in storage that another call reuses")
	r.Rule("C18-f", "nothing a parser owns is shared through a package-level variable: no store into a parser field (or into the whole parser through its pointer) takes a value that carries a reference - a slice, map, pointer - out of a package-level variable other than the grammar tree, error values and the state pool (a defaults struct copied into every parser shares the backing array of its slices)")
	abs := c.allAbs()
	r.Min("semantic variants analysed", 16, len(abs))
	for _, a := range abs {
		c18a(c, a.V)
		c18d(c, a.V)
		c18e(c, a.V)
		c18f(c, a.V)
		if a.V.Params.HasState() {
			c05ShapesRule(c, a, "C18-b")
			var bad []string
			for _, fn := range a.sortedNames() {
				for _, e := range a.Res[fn].Exits {
					for _, ev := range eventsOf(e, "restoreState") {
						if ev.Args[1] == "ALREADY-USED" {
							bad = append(bad, a.V.Where(ev.Pos)+": clone restored twice on one path in "+fn+": the dict is pooled while still installed")
						}
					}
				}
			}
			sort.Strings(bad)
			if len(bad) > 0 {
				r.Bad("C18-b", "T.clone-tokens:linear", a.V.Name, "builder/static_code.go", bad[0])
			} else {
				r.Ok("C18-b", "T.clone-tokens:linear", a.V.Name, "builder/static_code.go", "no token restored twice")
			}
		}
		c18c(c, a.V)
	}
}

func nodeTypes(v *variants.Variant) map[string]bool {
	out := map[string]bool{}
	for _, n := range []string{"grammar", "rule", "choiceExpr", "actionExpr", "recoveryExpr", "seqExpr", "throwExpr", "labeledExpr", "expr", "andExpr", "notExpr",
		"zeroOrOneExpr", "zeroOrMoreExpr", "oneOrMoreExpr", "ruleRefExpr", "stateCodeExpr", "andCodeExpr", "notCodeExpr", "litMatcher", "charClassMatcher", "anyMatcher"} {
		if v.Pkg.Scope().Lookup(n) != nil {
			out[n] = true
		}
	}
	return out
}

func c18a(c *Ctx, v *variants.Variant) {
	r := c.R
	nt := nodeTypes(v)
	if len(nt) < 20 {
		r.Fatal("variant %s: only %d grammar-node types found", v.Name, len(nt))
	}
	var bad []string
	n := 0
	for _, w := range fieldWrites(v) {
		n++
		if nt[w.Owner] || nt[w.Base] {
			bad = append(bad, fmt.Sprintf("%s: %s stores to %s.%s (%s): the grammar tree is shared by all concurrent parses", v.Where(w.Pos), w.Func, w.Owner, w.Field, w.Text))
		}
	}
	// package-level variables
	for _, fd := range v.Funcs() {
		if fd.Body == nil {
			continue
		}
		check := func(e ast.Expr) {
			for {
				switch x := e.(type) {
				case *ast.ParenExpr:
					e = x.X
					continue
				case *ast.IndexExpr:
					e = x.X
					continue
				case *ast.SelectorExpr:
					e = x.X
					continue
				case *ast.StarExpr:
					e = x.X
					continue
				case *ast.SliceExpr:
					e = x.X
					continue
				}
				break
			}
			id, ok := e.(*ast.Ident)
			if !ok {
				return
			}
			if o, ok := v.Info.ObjectOf(id).(*types.Var); ok && o.Parent() == v.Pkg.Scope() {
				bad = append(bad, v.Where(id.Pos())+": "+fd.Name.Name+" stores through package-level variable "+id.Name)
			}
		}
		ast.Inspect(fd.Body, func(nd ast.Node) bool {
			switch x := nd.(type) {
			case *ast.AssignStmt:
				if x.Tok.String() == ":=" {
					return true
				}
				for _, l := range x.Lhs {
					check(l)
				}
			case *ast.IncDecStmt:
				check(x.X)
			}
			return true
		})
	}
	sort.Strings(bad)
	if len(bad) > 0 {
		r.Bad("C18-a", "T:no-store-to-shared-memory", v.Name, "builder/static_code.go", bad[0])
	} else {
		r.Ok("C18-a", "T:no-store-to-shared-memory", v.Name, "builder/static_code.go", fmt.Sprintf("%d field stores inspected; none targets a grammar node or package-level variable", n))
	}
}

func c18c(c *Ctx, v *variants.Variant) {
	r := c.R
	var bad []string
	parserT := v.Pkg.Scope().Lookup("parser")
	isPP := func(t types.Type) bool {
		p, ok := t.(*types.Pointer)
		return ok && parserT != nil && types.Identical(p.Elem(), parserT.Type())
	}
	for _, fd := range v.Funcs() {
		if fd.Body == nil {
			continue
		}
		ast.Inspect(fd.Body, func(nd ast.Node) bool {
			switch x := nd.(type) {
			case *ast.GoStmt:
				bad = append(bad, v.Where(x.Pos())+": go statement in "+fd.Name.Name)
			case *ast.SendStmt:
				if t := v.Info.TypeOf(x.Value); t != nil && isPP(t) {
					bad = append(bad, v.Where(x.Pos())+": *parser sent on a channel in "+fd.Name.Name)
				}
			case *ast.AssignStmt:
				for i, rhs := range x.Rhs {
					t := v.Info.TypeOf(rhs)
					if t == nil || !isPP(t) || i >= len(x.Lhs) {
						continue
					}
					if id, ok := x.Lhs[i].(*ast.Ident); ok {
						if o, ok := v.Info.ObjectOf(id).(*types.Var); ok && o.Parent() != v.Pkg.Scope() {
							continue // local
						}
					}
					bad = append(bad, v.Where(x.Pos())+": *parser stored into "+nospace(x.Lhs[i])+" in "+fd.Name.Name)
				}
			case *ast.KeyValueExpr:
				if t := v.Info.TypeOf(x.Value); t != nil && isPP(t) {
					bad = append(bad, v.Where(x.Pos())+": *parser stored into a composite literal in "+fd.Name.Name)
				}
			}
			return true
		})
	}
	// package-level variables of a type holding *parser
	for _, n := range v.Pkg.Scope().Names() {
		if o, ok := v.Pkg.Scope().Lookup(n).(*types.Var); ok && isPP(o.Type()) {
			bad = append(bad, "package-level variable "+n+" of type *parser")
		}
	}
	pf := v.Func("", "Parse")
	okParse, _ := parseForwards(c, v)
	_ = pf
	if !okParse {
		bad = append(bad, "Parse does not allocate a fresh parser per call and use it only as receiver")
	}
	sort.Strings(bad)
	if len(bad) > 0 {
		r.Bad("C18-c", "T.parser:per-call-and-confined", v.Name, "builder/static_code.go", bad[0])
	} else {
		r.Ok("C18-c", "T.parser:per-call-and-confined", v.Name, "builder/static_code.go", "fresh parser per Parse call; never stored, sent or handed to a goroutine")
	}
}

// c18d: closures of type Option write only through their parameter or to their own locals.
func c18d(c *Ctx, v *variants.Variant) {
	r := c.R
	optT := v.Pkg.Scope().Lookup("Option")
	if optT == nil {
		r.Fatal("variant %s: type Option not found", v.Name)
		return
	}
	n := 0
	var bad []string
	for _, fd := range v.Funcs() {
		if fd.Body == nil {
			continue
		}
		ast.Inspect(fd.Body, func(nd ast.Node) bool {
			fl, ok := nd.(*ast.FuncLit)
			if !ok {
				return true
			}
			tv, ok := v.Info.Types[fl]
			if !ok {
				return true
			}
			sig, ok := tv.Type.(*types.Signature)
			if !ok || sig.Params().Len() != 1 || sig.Results().Len() != 1 || !types.Identical(sig.Results().At(0).Type(), optT.Type()) {
				return true
			}
			n++
			param := ""
			if len(fl.Type.Params.List) == 1 && len(fl.Type.Params.List[0].Names) == 1 {
				param = fl.Type.Params.List[0].Names[0].Name
			}
			check := func(lhs ast.Expr, at ast.Node) {
				// root identifier of the store target
				e := lhs
				for {
					switch x := e.(type) {
					case *ast.SelectorExpr:
						e = x.X
						continue
					case *ast.IndexExpr:
						e = x.X
						continue
					case *ast.StarExpr:
						e = x.X
						continue
					case *ast.ParenExpr:
						e = x.X
						continue
					}
					break
				}
				id, ok := e.(*ast.Ident)
				if !ok || id.Name == "_" {
					return
				}
				obj := v.Info.ObjectOf(id)
				if obj == nil {
					return
				}
				inside := obj.Pos() >= fl.Pos() && obj.Pos() < fl.End()
				if id.Name == param && inside && lhs != ast.Expr(id) {
					return // store through the parser parameter
				}
				if inside && id.Name != param {
					return // local of the closure
				}
				if lhs != ast.Expr(id) && param != "" && installedInParser(fl.Body, param, id.Name, at.Pos()) {
					return // a store through a captured pointer the closure has just installed in a field of its parser: the same memory as the store spelled through the parser parameter
				}
				bad = append(bad, v.Where(at.Pos())+": the option closure in "+fd.Name.Name+" stores to "+nospace(lhs)+", a variable captured from the constructor: applying the same Option value in two concurrent Parse calls is a data race")
			}
			ast.Inspect(fl.Body, func(m ast.Node) bool {
				switch x := m.(type) {
				case *ast.FuncLit:
					return false
				case *ast.AssignStmt:
					if x.Tok == token.DEFINE {
						return true
					}
					for _, l := range x.Lhs {
						check(l, x)
					}
				case *ast.IncDecStmt:
					check(x.X, x)
				case *ast.UnaryExpr:
					if x.Op == token.AND {
						if id, ok := x.X.(*ast.Ident); ok {
							if obj := v.Info.ObjectOf(id); obj != nil && !(obj.Pos() >= fl.Pos() && obj.Pos() < fl.End()) {
								if _, isVar := obj.(*types.Var); isVar && obj.Parent() != v.Pkg.Scope() {
									bad = append(bad, v.Where(x.Pos())+": the option closure in "+fd.Name.Name+" takes the address of the captured variable "+id.Name)
								}
							}
						}
					}
				}
				return true
			})
			return true
		})
	}
	sort.Strings(bad)
	r.Check(len(bad) == 0 && n >= 5, "C18-d", "T.options:closures-write-only-through-their-parser", v.Name, "builder/static_code.go", fmt.Sprintf("%d option closures, none stores to a captured variable", n), fmt.Sprintf("%d option closures; %s", n, strings.Join(uniq(bad), "; ")))
}

// c18e (C18-e): values taken from a package-level pool do not escape the function that took them.
func c18e(c *Ctx, v *variants.Variant) {
	r := c.R
	isPool := func(t types.Type) bool {
		if p, ok := t.(*types.Pointer); ok {
			t = p.Elem()
		}
		n, ok := t.(*types.Named)
		return ok && n.Obj().Name() == "Pool" && n.Obj().Pkg() != nil && n.Obj().Pkg().Path() == "sync"
	}
	var bad []string
	pools := map[string]bool{}
	nGet := 0
	for _, fd := range v.Funcs() {
		if fd.Body == nil {
			continue
		}
		alias := map[types.Object]string{} // local -> pool it aliases storage of
		poolOf := func(e ast.Expr) string {
			// P.Get() or P.Get().(T) on a package-level pool
			if ta, ok := e.(*ast.TypeAssertExpr); ok {
				e = ta.X
			}
			ce, ok := stripParens(e).(*ast.CallExpr)
			if !ok {
				return ""
			}
			sel, ok := ce.Fun.(*ast.SelectorExpr)
			if !ok || sel.Sel.Name != "Get" {
				return ""
			}
			id, ok := sel.X.(*ast.Ident)
			if !ok {
				return ""
			}
			o := v.Info.Uses[id]
			if o == nil || o.Parent() != v.Pkg.Scope() || !isPool(o.Type()) {
				return ""
			}
			return id.Name
		}
		var aliasOf func(e ast.Expr) string
		aliasOf = func(e ast.Expr) string {
			switch x := stripParens(e).(type) {
			case *ast.Ident:
				if o := v.Info.Uses[x]; o != nil {
					return alias[o]
				}
			case *ast.SliceExpr:
				return aliasOf(x.X)
			case *ast.StarExpr:
				return aliasOf(x.X)
			case *ast.UnaryExpr:
				return aliasOf(x.X)
			case *ast.TypeAssertExpr:
				return aliasOf(x.X)
			case *ast.CallExpr:
				if p := poolOf(x); p != "" {
					return p
				}
				// methods that hand out the storage itself
				if sel, ok := x.Fun.(*ast.SelectorExpr); ok && (sel.Sel.Name == "Bytes" || sel.Sel.Name == "AvailableBuffer" || sel.Sel.Name == "Next") {
					return aliasOf(sel.X)
				}
			}
			if p := poolOf(e); p != "" {
				return p
			}
			return ""
		}
		// aliases, to a fixed point over the assignments of the function
		for changed := true; changed; {
			changed = false
			ast.Inspect(fd.Body, func(n ast.Node) bool {
				as, ok := n.(*ast.AssignStmt)
				if !ok || len(as.Lhs) != len(as.Rhs) {
					return true
				}
				for i, l := range as.Lhs {
					id, ok := l.(*ast.Ident)
					if !ok {
						continue
					}
					if p := aliasOf(as.Rhs[i]); p != "" {
						o := v.Info.Defs[id]
						if o == nil {
							o = v.Info.Uses[id]
						}
						if o != nil && alias[o] == "" {
							alias[o] = p
							changed = true
						}
					}
				}
				return true
			})
		}
		ast.Inspect(fd.Body, func(n ast.Node) bool {
			switch x := n.(type) {
			case *ast.CallExpr:
				if p := poolOf(x); p != "" {
					pools[p] = true
					nGet++
				}
				// the pool's own Put takes the value back; methods called on the value use it in place
				if sel, ok := x.Fun.(*ast.SelectorExpr); ok && sel.Sel.Name == "Put" {
					if id, ok := sel.X.(*ast.Ident); ok && isPool(v.Info.TypeOf(id)) {
						return true
					}
				}
				if id, ok := x.Fun.(*ast.Ident); ok {
					if _, builtin := v.Info.Uses[id].(*types.Builtin); builtin && (id.Name == "len" || id.Name == "cap" || id.Name == "clear" || id.Name == "delete") {
						return true
					}
				}
				for _, a := range x.Args {
					if p := aliasOf(a); p != "" && p != "statePool" {
						bad = append(bad, fmt.Sprintf("%s: %s passes storage taken from %s to %s: what that call keeps or returns (matched text is a slice of the input) lies in a buffer the next call reuses", v.Where(a.Pos()), fd.Name.Name, p, nospace(x.Fun)))
					}
				}
			case *ast.ReturnStmt:
				for _, res := range x.Results {
					if p := aliasOf(res); p != "" && p != "statePool" {
						bad = append(bad, fmt.Sprintf("%s: %s returns storage taken from %s", v.Where(res.Pos()), fd.Name.Name, p))
					}
				}
			case *ast.AssignStmt:
				if len(x.Lhs) == len(x.Rhs) {
					for i, l := range x.Lhs {
						if _, isIdent := l.(*ast.Ident); isIdent {
							continue
						}
						if p := aliasOf(x.Rhs[i]); p != "" && p != "statePool" {
							bad = append(bad, fmt.Sprintf("%s: %s stores storage taken from %s into %s", v.Where(x.Pos()), fd.Name.Name, p, nospace(l)))
						}
					}
				}
			}
			return true
		})
	}
	sort.Strings(bad)
	var names []string
	for p := range pools {
		names = append(names, p)
	}
	sort.Strings(names)
	r.Check(len(bad) == 0, "C18-e", "T.pools:pooled-storage-does-not-escape", v.Name, "builder/static_code.go", fmt.Sprintf("%d Get calls on package-level pools %v; no pooled value other than the state dictionary leaves the function that took it", nGet, names), strings.Join(uniq(bad), "; "))
}

// c18f (C18-f): nothing a parser owns is shared through a package-level variable. A store into a parser (a field of
// it, or the whole struct through its pointer) whose right-hand side reads a package-level variable and carries a
// reference (slice, map, pointer, channel, function or interface inside the stored value) makes every parser built
// that way share that storage: `*p = parserDefaults` copies the slice header of a defaults struct, and all parsers
// append into one backing array. The grammar tree (read-only, C18-a), error values and the state pool are the
// package-level objects parsers may refer to.
func c18f(c *Ctx, v *variants.Variant) {
	r := c.R
	var hasRef func(t types.Type, depth int) bool
	hasRef = func(t types.Type, depth int) bool {
		if t == nil || depth > 4 {
			return false
		}
		switch u := t.Underlying().(type) {
		case *types.Slice, *types.Map, *types.Pointer, *types.Chan, *types.Signature, *types.Interface:
			return true
		case *types.Struct:
			for i := 0; i < u.NumFields(); i++ {
				if hasRef(u.Field(i).Type(), depth+1) {
					return true
				}
			}
		case *types.Array:
			return hasRef(u.Elem(), depth+1)
		}
		return false
	}
	isParser := func(t types.Type) bool {
		if p, ok := t.(*types.Pointer); ok {
			t = p.Elem()
		}
		n, ok := t.(*types.Named)
		return ok && n.Obj().Name() == "parser"
	}
	exempt := func(o types.Object) bool {
		t := o.Type()
		if p, ok := t.(*types.Pointer); ok {
			t = p.Elem()
		}
		if n, ok := t.(*types.Named); ok {
			switch n.Obj().Name() {
			case "grammar", "Pool":
				return true
			}
		}
		if types.Identical(o.Type(), types.Universe.Lookup("error").Type()) {
			return true
		}
		return false
	}
	var bad []string
	n := 0
	for _, fd := range v.Funcs() {
		if fd.Body == nil {
			continue
		}
		check := func(pos token.Pos, target string, rhs ast.Expr) {
			n++
			if !hasRef(v.Info.TypeOf(rhs), 0) {
				return
			}
			ast.Inspect(rhs, func(m ast.Node) bool {
				if _, isLit := m.(*ast.FuncLit); isLit {
					return false
				}
				id, ok := m.(*ast.Ident)
				if !ok {
					return true
				}
				o, ok := v.Info.Uses[id].(*types.Var)
				if !ok || o.Parent() != v.Pkg.Scope() || exempt(o) || !hasRef(o.Type(), 0) {
					return true
				}
				bad = append(bad, fmt.Sprintf("%s: %s stores %s into %s: the value carries a reference held by the package-level variable %s, so every parser built this way shares that storage with the others", v.Where(pos), fd.Name.Name, nospace(rhs), target, id.Name))
				return true
			})
		}
		ast.Inspect(fd.Body, func(nd ast.Node) bool {
			// a parser built by a literal: the same for every field value
			if cl, ok := nd.(*ast.CompositeLit); ok && isParser(v.Info.TypeOf(cl)) {
				for _, el := range cl.Elts {
					if kv, ok := el.(*ast.KeyValueExpr); ok {
						check(kv.Pos(), "field "+nospace(kv.Key)+" of a new parser", kv.Value)
					}
				}
				return true
			}
			as, ok := nd.(*ast.AssignStmt)
			if !ok || len(as.Lhs) != len(as.Rhs) {
				return true
			}
			for i, l := range as.Lhs {
				// the target: a field of a parser, or the parser itself through its pointer
				base := l
				for {
					switch x := base.(type) {
					case *ast.SelectorExpr:
						base = x.X
						continue
					case *ast.IndexExpr:
						base = x.X
						continue
					case *ast.StarExpr:
						base = x.X
						continue
					case *ast.ParenExpr:
						base = x.X
						continue
					}
					break
				}
				if _, isIdent := l.(*ast.Ident); isIdent {
					continue
				}
				if !isParser(v.Info.TypeOf(base)) {
					continue
				}
				check(as.Pos(), nospace(l), as.Rhs[i])
			}
			return true
		})
	}
	sort.Strings(bad)
	r.Check(len(bad) == 0, "C18-f", "T.parser:no-storage-shared-through-package-variables", v.Name, "builder/static_code.go", fmt.Sprintf("%d stores into parser fields, none takes a reference out of a package-level variable", n), strings.Join(uniq(bad), "; "))
}

// installedInParser: before pos the body assigns the captured variable name to a field reached through the parser
// parameter (`p.Stats = stats`, also as one position of a tuple assignment).
func installedInParser(body ast.Node, param, name string, pos token.Pos) bool {
	found := false
	ast.Inspect(body, func(n ast.Node) bool {
		if _, ok := n.(*ast.FuncLit); ok {
			return false
		}
		as, ok := n.(*ast.AssignStmt)
		if !ok || as.Pos() >= pos || len(as.Lhs) != len(as.Rhs) {
			return true
		}
		for i, l := range as.Lhs {
			sel, ok := l.(*ast.SelectorExpr)
			if !ok {
				continue
			}
			if root, ok := sel.X.(*ast.Ident); ok && root.Name == param {
				if id, ok := stripParens(as.Rhs[i]).(*ast.Ident); ok && id.Name == name {
					found = true
				}
			}
		}
		return true
	})
	return found
}
