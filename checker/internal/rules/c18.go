package rules

import (
	"fmt"
	"go/ast"
	"go/token"
	"go/types"
	"sort"
	"strings"

	"pigeonverif/internal/variants"
)

// C18 — concurrent parses with one generated parser are isolated.
func C18(c *Ctx) {
	r := c.R
	r.Technique = "ownership / effect analysis on the type-checked runtime of all 16 variants: type-resolved scan of every store (fields of grammar-node types, package-level variables), escape rules for the per-call *parser, pool discipline and linear clone tokens (typestate)"
	r.Explanation = "Complete ownership argument for the runtime: (a) no function of the runtime stores to a package-level variable or to a field/element of a grammar-node type, so the tree under g is immutable after package initialisation; (b) the only shared mutable object is statePool (a sync.Pool): a dict is Put only in Discard after all its keys were deleted, restoreState overwrites the discarded dict's only reference, and clone tokens are linear, so no dict is live and pooled at once; (c) all other mutable state is reached only through the *parser allocated per call in newParser, which is never stored in a global, a grammar node or sent to another goroutine, and the runtime starts no goroutines. User code blocks and a user-shared *Stats are outside the claim."
	r.Assumptions = []string{"sync.Pool is safe for concurrent use", "user code blocks do not share mutable data between calls"}
	r.Rule("C18-a", "no store (assignment, op-assignment, ++/--, element store, address-of) targets a field of a grammar-node type or a package-level variable anywhere in the runtime")
	r.Rule("C18-b", "statePool.Put occurs only in Discard after clearing; restoreState = Discard old; install clone; clone tokens are restored at most once per path")
	r.Rule("C18-c", "no go statement; no value of type *parser is stored outside locals/parameters (not in package variables, struct fields or sent on channels); newParser's result is used only as the receiver of parse in Parse")
	r.Rule("C18-d", "Option values are immutable: the closure returned by an option constructor stores only through its *parser parameter or into variables declared inside the closure - never into a captured variable (a constructor parameter), so one Option value may be passed to concurrent Parse calls")
	abs := c.allAbs()
	r.Min("semantic variants analysed", 16, len(abs))
	for _, a := range abs {
		c18a(c, a.V)
		c18d(c, a.V)
		if a.V.Params.HasState() {
			c05ShapesRule(c, a, "C18-b")
			var bad []string
			for _, fn := range a.sortedNames() {
				for _, e := range a.Res[fn].Exits {
					for _, ev := range eventsOf(e, "restoreState") {
						if ev.Args[1] == "ALREADY-USED" {
							bad = append(bad, a.V.Where(ev.Pos)+": clone restored twice on one path in "+fn+": the dict is pooled while still installed")
						}
					}
				}
			}
			sort.Strings(bad)
			if len(bad) > 0 {
				r.Bad("C18-b", "T.clone-tokens:linear", a.V.Name, "builder/static_code.go", bad[0])
			} else {
				r.Ok("C18-b", "T.clone-tokens:linear", a.V.Name, "builder/static_code.go", "no token restored twice")
			}
		}
		c18c(c, a.V)
	}
}

func nodeTypes(v *variants.Variant) map[string]bool {
	out := map[string]bool{}
	for _, n := range []string{"grammar", "rule", "choiceExpr", "actionExpr", "recoveryExpr", "seqExpr", "throwExpr", "labeledExpr", "expr", "andExpr", "notExpr",
		"zeroOrOneExpr", "zeroOrMoreExpr", "oneOrMoreExpr", "ruleRefExpr", "stateCodeExpr", "andCodeExpr", "notCodeExpr", "litMatcher", "charClassMatcher", "anyMatcher"} {
		if v.Pkg.Scope().Lookup(n) != nil {
			out[n] = true
		}
	}
	return out
}

func c18a(c *Ctx, v *variants.Variant) {
	r := c.R
	nt := nodeTypes(v)
	if len(nt) < 20 {
		r.Fatal("variant %s: only %d grammar-node types found", v.Name, len(nt))
	}
	var bad []string
	n := 0
	for _, w := range fieldWrites(v) {
		n++
		if nt[w.Owner] || nt[w.Base] {
			bad = append(bad, fmt.Sprintf("%s: %s stores to %s.%s (%s): the grammar tree is shared by all concurrent parses", v.Where(w.Pos), w.Func, w.Owner, w.Field, w.Text))
		}
	}
	// package-level variables
	for _, fd := range v.Funcs() {
		if fd.Body == nil {
			continue
		}
		check := func(e ast.Expr) {
			for {
				switch x := e.(type) {
				case *ast.ParenExpr:
					e = x.X
					continue
				case *ast.IndexExpr:
					e = x.X
					continue
				case *ast.SelectorExpr:
					e = x.X
					continue
				case *ast.StarExpr:
					e = x.X
					continue
				case *ast.SliceExpr:
					e = x.X
					continue
				}
				break
			}
			id, ok := e.(*ast.Ident)
			if !ok {
				return
			}
			if o, ok := v.Info.ObjectOf(id).(*types.Var); ok && o.Parent() == v.Pkg.Scope() {
				bad = append(bad, v.Where(id.Pos())+": "+fd.Name.Name+" stores through package-level variable "+id.Name)
			}
		}
		ast.Inspect(fd.Body, func(nd ast.Node) bool {
			switch x := nd.(type) {
			case *ast.AssignStmt:
				if x.Tok.String() == ":=" {
					return true
				}
				for _, l := range x.Lhs {
					check(l)
				}
			case *ast.IncDecStmt:
				check(x.X)
			}
			return true
		})
	}
	sort.Strings(bad)
	if len(bad) > 0 {
		r.Bad("C18-a", "T:no-store-to-shared-memory", v.Name, "builder/static_code.go", bad[0])
	} else {
		r.Ok("C18-a", "T:no-store-to-shared-memory", v.Name, "builder/static_code.go", fmt.Sprintf("%d field stores inspected; none targets a grammar node or package-level variable", n))
	}
}

func c18c(c *Ctx, v *variants.Variant) {
	r := c.R
	var bad []string
	parserT := v.Pkg.Scope().Lookup("parser")
	isPP := func(t types.Type) bool {
		p, ok := t.(*types.Pointer)
		return ok && parserT != nil && types.Identical(p.Elem(), parserT.Type())
	}
	for _, fd := range v.Funcs() {
		if fd.Body == nil {
			continue
		}
		ast.Inspect(fd.Body, func(nd ast.Node) bool {
			switch x := nd.(type) {
			case *ast.GoStmt:
				bad = append(bad, v.Where(x.Pos())+": go statement in "+fd.Name.Name)
			case *ast.SendStmt:
				if t := v.Info.TypeOf(x.Value); t != nil && isPP(t) {
					bad = append(bad, v.Where(x.Pos())+": *parser sent on a channel in "+fd.Name.Name)
				}
			case *ast.AssignStmt:
				for i, rhs := range x.Rhs {
					t := v.Info.TypeOf(rhs)
					if t == nil || !isPP(t) || i >= len(x.Lhs) {
						continue
					}
					if id, ok := x.Lhs[i].(*ast.Ident); ok {
						if o, ok := v.Info.ObjectOf(id).(*types.Var); ok && o.Parent() != v.Pkg.Scope() {
							continue // local
						}
					}
					bad = append(bad, v.Where(x.Pos())+": *parser stored into "+nospace(x.Lhs[i])+" in "+fd.Name.Name)
				}
			case *ast.KeyValueExpr:
				if t := v.Info.TypeOf(x.Value); t != nil && isPP(t) {
					bad = append(bad, v.Where(x.Pos())+": *parser stored into a composite literal in "+fd.Name.Name)
				}
			}
			return true
		})
	}
	// package-level variables of a type holding *parser
	for _, n := range v.Pkg.Scope().Names() {
		if o, ok := v.Pkg.Scope().Lookup(n).(*types.Var); ok && isPP(o.Type()) {
			bad = append(bad, "package-level variable "+n+" of type *parser")
		}
	}
	pf := v.Func("", "Parse")
	okParse, _ := parseForwards(c, v)
	_ = pf
	if !okParse {
		bad = append(bad, "Parse does not allocate a fresh parser per call and use it only as receiver")
	}
	sort.Strings(bad)
	if len(bad) > 0 {
		r.Bad("C18-c", "T.parser:per-call-and-confined", v.Name, "builder/static_code.go", bad[0])
	} else {
		r.Ok("C18-c", "T.parser:per-call-and-confined", v.Name, "builder/static_code.go", "fresh parser per Parse call; never stored, sent or handed to a goroutine")
	}
}

// c18d: closures of type Option write only through their parameter or to their own locals.
func c18d(c *Ctx, v *variants.Variant) {
	r := c.R
	optT := v.Pkg.Scope().Lookup("Option")
	if optT == nil {
		r.Fatal("variant %s: type Option not found", v.Name)
		return
	}
	n := 0
	var bad []string
	for _, fd := range v.Funcs() {
		if fd.Body == nil {
			continue
		}
		ast.Inspect(fd.Body, func(nd ast.Node) bool {
			fl, ok := nd.(*ast.FuncLit)
			if !ok {
				return true
			}
			tv, ok := v.Info.Types[fl]
			if !ok {
				return true
			}
			sig, ok := tv.Type.(*types.Signature)
			if !ok || sig.Params().Len() != 1 || sig.Results().Len() != 1 || !types.Identical(sig.Results().At(0).Type(), optT.Type()) {
				return true
			}
			n++
			param := ""
			if len(fl.Type.Params.List) == 1 && len(fl.Type.Params.List[0].Names) == 1 {
				param = fl.Type.Params.List[0].Names[0].Name
			}
			check := func(lhs ast.Expr, at ast.Node) {
				// root identifier of the store target
				e := lhs
				for {
					switch x := e.(type) {
					case *ast.SelectorExpr:
						e = x.X
						continue
					case *ast.IndexExpr:
						e = x.X
						continue
					case *ast.StarExpr:
						e = x.X
						continue
					case *ast.ParenExpr:
						e = x.X
						continue
					}
					break
				}
				id, ok := e.(*ast.Ident)
				if !ok || id.Name == "_" {
					return
				}
				obj := v.Info.ObjectOf(id)
				if obj == nil {
					return
				}
				inside := obj.Pos() >= fl.Pos() && obj.Pos() < fl.End()
				if id.Name == param && inside && lhs != ast.Expr(id) {
					return // store through the parser parameter
				}
				if inside && id.Name != param {
					return // local of the closure
				}
				bad = append(bad, v.Where(at.Pos())+": the option closure in "+fd.Name.Name+" stores to "+nospace(lhs)+", a variable captured from the constructor: applying the same Option value in two concurrent Parse calls is a data race")
			}
			ast.Inspect(fl.Body, func(m ast.Node) bool {
				switch x := m.(type) {
				case *ast.FuncLit:
					return false
				case *ast.AssignStmt:
					if x.Tok == token.DEFINE {
						return true
					}
					for _, l := range x.Lhs {
						check(l, x)
					}
				case *ast.IncDecStmt:
					check(x.X, x)
				case *ast.UnaryExpr:
					if x.Op == token.AND {
						if id, ok := x.X.(*ast.Ident); ok {
							if obj := v.Info.ObjectOf(id); obj != nil && !(obj.Pos() >= fl.Pos() && obj.Pos() < fl.End()) {
								if _, isVar := obj.(*types.Var); isVar && obj.Parent() != v.Pkg.Scope() {
									bad = append(bad, v.Where(x.Pos())+": the option closure in "+fd.Name.Name+" takes the address of the captured variable "+id.Name)
								}
							}
						}
					}
				}
				return true
			})
			return true
		})
	}
	sort.Strings(bad)
	r.Check(len(bad) == 0 && n >= 5, "C18-d", "T.options:closures-write-only-through-their-parser", v.Name, "builder/static_code.go", fmt.Sprintf("%d option closures, none stores to a captured variable", n), fmt.Sprintf("%d option closures; %s", n, strings.Join(uniq(bad), "; ")))
}
