package rules

import (
	"fmt"
	"go/ast"
	"go/types"
	"sort"
	"strings"

	"pigeonverif/internal/variants"
)

// C18 — concurrent parses with one generated parser are isolated.
func C18(c *Ctx) {
	r := c.R
	r.Technique = "ownership / effect analysis on the type-checked runtime of all 16 variants: type-resolved scan of every store (fields of grammar-node types, package-level variables), escape rules for the per-call *parser, pool discipline and linear clone tokens (typestate)"
	r.Explanation = "Complete ownership argument for the runtime: (a) no function of the runtime stores to a package-level variable or to a field/element of a grammar-node type, so the tree under g is immutable after package initialisation; (b) the only shared mutable object is statePool (a sync.Pool): a dict is Put only in Discard after all its keys were deleted, restoreState overwrites the discarded dict's only reference, and clone tokens are linear, so no dict is live and pooled at once; (c) all other mutable state is reached only through the *parser allocated per call in newParser, which is never stored in a global, a grammar node or sent to another goroutine, and the runtime starts no goroutines. User code blocks and a user-shared *Stats are outside the claim."
	r.Assumptions = []string{"sync.Pool is safe for concurrent use", "user code blocks and option values are not shared between calls by the user"}
	r.Rule("C18-a", "no store (assignment, op-assignment, ++/--, element store, address-of) targets a field of a grammar-node type or a package-level variable anywhere in the runtime")
	r.Rule("C18-b", "statePool.Put occurs only in Discard after clearing; restoreState = Discard old; install clone; clone tokens are restored at most once per path")
	r.Rule("C18-c", "no go statement; no value of type *parser is stored outside locals/parameters (not in package variables, struct fields or sent on channels); newParser's result is used only as the receiver of parse in Parse")
	abs := c.allAbs()
	r.Min("semantic variants analysed", 16, len(abs))
	for _, a := range abs {
		c18a(c, a.V)
		if a.V.Params.HasState() {
			c05ShapesRule(c, a, "C18-b")
			var bad []string
			for _, fn := range a.sortedNames() {
				for _, e := range a.Res[fn].Exits {
					for _, ev := range eventsOf(e, "restoreState") {
						if ev.Args[1] == "ALREADY-USED" {
							bad = append(bad, a.V.Where(ev.Pos)+": clone restored twice on one path in "+fn+": the dict is pooled while still installed")
						}
					}
				}
			}
			sort.Strings(bad)
			if len(bad) > 0 {
				r.Bad("C18-b", "T.clone-tokens:linear", a.V.Name, "builder/static_code.go", bad[0])
			} else {
				r.Ok("C18-b", "T.clone-tokens:linear", a.V.Name, "builder/static_code.go", "no token restored twice")
			}
		}
		c18c(c, a.V)
	}
}

func nodeTypes(v *variants.Variant) map[string]bool {
	out := map[string]bool{}
	for _, n := range []string{"grammar", "rule", "choiceExpr", "actionExpr", "recoveryExpr", "seqExpr", "throwExpr", "labeledExpr", "expr", "andExpr", "notExpr",
		"zeroOrOneExpr", "zeroOrMoreExpr", "oneOrMoreExpr", "ruleRefExpr", "stateCodeExpr", "andCodeExpr", "notCodeExpr", "litMatcher", "charClassMatcher", "anyMatcher"} {
		if v.Pkg.Scope().Lookup(n) != nil {
			out[n] = true
		}
	}
	return out
}

func c18a(c *Ctx, v *variants.Variant) {
	r := c.R
	nt := nodeTypes(v)
	if len(nt) < 20 {
		r.Fatal("variant %s: only %d grammar-node types found", v.Name, len(nt))
	}
	var bad []string
	n := 0
	for _, w := range fieldWrites(v) {
		n++
		if nt[w.Owner] || nt[w.Base] {
			bad = append(bad, fmt.Sprintf("%s: %s stores to %s.%s (%s): the grammar tree is shared by all concurrent parses", v.Where(w.Pos), w.Func, w.Owner, w.Field, w.Text))
		}
	}
	// package-level variables
	for _, fd := range v.Funcs() {
		if fd.Body == nil {
			continue
		}
		check := func(e ast.Expr) {
			for {
				switch x := e.(type) {
				case *ast.ParenExpr:
					e = x.X
					continue
				case *ast.IndexExpr:
					e = x.X
					continue
				case *ast.SelectorExpr:
					e = x.X
					continue
				case *ast.StarExpr:
					e = x.X
					continue
				case *ast.SliceExpr:
					e = x.X
					continue
				}
				break
			}
			id, ok := e.(*ast.Ident)
			if !ok {
				return
			}
			if o, ok := v.Info.ObjectOf(id).(*types.Var); ok && o.Parent() == v.Pkg.Scope() {
				bad = append(bad, v.Where(id.Pos())+": "+fd.Name.Name+" stores through package-level variable "+id.Name)
			}
		}
		ast.Inspect(fd.Body, func(nd ast.Node) bool {
			switch x := nd.(type) {
			case *ast.AssignStmt:
				if x.Tok.String() == ":=" {
					return true
				}
				for _, l := range x.Lhs {
					check(l)
				}
			case *ast.IncDecStmt:
				check(x.X)
			}
			return true
		})
	}
	sort.Strings(bad)
	if len(bad) > 0 {
		r.Bad("C18-a", "T:no-store-to-shared-memory", v.Name, "builder/static_code.go", bad[0])
	} else {
		r.Ok("C18-a", "T:no-store-to-shared-memory", v.Name, "builder/static_code.go", fmt.Sprintf("%d field stores inspected; none targets a grammar node or package-level variable", n))
	}
}

func c18c(c *Ctx, v *variants.Variant) {
	r := c.R
	var bad []string
	parserT := v.Pkg.Scope().Lookup("parser")
	isPP := func(t types.Type) bool {
		p, ok := t.(*types.Pointer)
		return ok && parserT != nil && types.Identical(p.Elem(), parserT.Type())
	}
	for _, fd := range v.Funcs() {
		if fd.Body == nil {
			continue
		}
		ast.Inspect(fd.Body, func(nd ast.Node) bool {
			switch x := nd.(type) {
			case *ast.GoStmt:
				bad = append(bad, v.Where(x.Pos())+": go statement in "+fd.Name.Name)
			case *ast.SendStmt:
				if t := v.Info.TypeOf(x.Value); t != nil && isPP(t) {
					bad = append(bad, v.Where(x.Pos())+": *parser sent on a channel in "+fd.Name.Name)
				}
			case *ast.AssignStmt:
				for i, rhs := range x.Rhs {
					t := v.Info.TypeOf(rhs)
					if t == nil || !isPP(t) || i >= len(x.Lhs) {
						continue
					}
					if id, ok := x.Lhs[i].(*ast.Ident); ok {
						if o, ok := v.Info.ObjectOf(id).(*types.Var); ok && o.Parent() != v.Pkg.Scope() {
							continue // local
						}
					}
					bad = append(bad, v.Where(x.Pos())+": *parser stored into "+nospace(x.Lhs[i])+" in "+fd.Name.Name)
				}
			case *ast.KeyValueExpr:
				if t := v.Info.TypeOf(x.Value); t != nil && isPP(t) {
					bad = append(bad, v.Where(x.Pos())+": *parser stored into a composite literal in "+fd.Name.Name)
				}
			}
			return true
		})
	}
	// package-level variables of a type holding *parser
	for _, n := range v.Pkg.Scope().Names() {
		if o, ok := v.Pkg.Scope().Lookup(n).(*types.Var); ok && isPP(o.Type()) {
			bad = append(bad, "package-level variable "+n+" of type *parser")
		}
	}
	pf := v.Func("", "Parse")
	okParse := false
	if pf != nil && len(pf.Body.List) == 1 {
		if rs, ok := pf.Body.List[0].(*ast.ReturnStmt); ok && len(rs.Results) == 1 && strings.HasPrefix(nospace(rs.Results[0]), "newParser(") && strings.HasSuffix(nospace(rs.Results[0]), ").parse(g)") {
			okParse = true
		}
	}
	if !okParse {
		bad = append(bad, "Parse does not allocate a fresh parser per call and use it only as receiver")
	}
	sort.Strings(bad)
	if len(bad) > 0 {
		r.Bad("C18-c", "T.parser:per-call-and-confined", v.Name, "builder/static_code.go", bad[0])
	} else {
		r.Ok("C18-c", "T.parser:per-call-and-confined", v.Name, "builder/static_code.go", "fresh parser per Parse call; never stored, sent or handed to a goroutine")
	}
}
