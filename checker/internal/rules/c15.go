package rules

import (
	"fmt"
	"go/ast"
	"regexp"
	"strings"

	"pigeonverif/internal/load"
)

// C15 — -optimize-basic-latin is a pure optimisation of character classes.
func C15(c *Ctx) {
	r := c.R
	r.Technique = "sibling agreement between the general class-matching procedure and builder.BasicLatinLookup (uniform case folding over the three member sources); wiring of the fast path in the 8 BasicLatinLookupTable variants and of the table emission in the builder"
	r.Explanation = "Equality of the two procedures over all classes × 128 runes is a semantic question that static analysis of this kind does not settle (enumerating it means running code); it is not claimed as a whole. Structural necessary conditions are decided: the general path folds the input rune before testing all three member sources (characters, ranges, Unicode classes), so the table computation must take ignoreCase into account in each of its three member loops. Also decided: the fast path is taken only for cur < 128 on the unfolded rune, consults basicLatinChars[cur] != inverted, reports to failAt like the general path and otherwise falls through to the unchanged general path; the table is emitted from the node's own members and flag exactly when the variant has the fast path. Two further sibling clauses: under ignoreCase the Basic Latin filter (< 128) is applied to the folded member, the value the general path compares with (C15-d; found defect F17 on the pinned tree: U+212A and U+0130 fold into Basic Latin; repaired), and range end points are not case-mapped one by one (C15-e = C01-g; finding F16: the table is right, the general path is not, so the two disagree on [A-z]i and [Z-a]i). Not decided: equality of the two procedures beyond these clauses."
	r.Assumptions = []string{"C01/C12 cover the general path"}
	r.Rule("C15-a", "BasicLatinLookup handles ignoreCase inside each of its member loops (chars, ranges, unicodeClasses), as the general path folds the rune before all three tests")
	r.Rule("C15-b", "parseCharClassMatcher (BasicLatinLookupTable variants): `if cur < 128 { if chr.basicLatinChars[cur] != chr.inverted { read; failAt(true); return slice,true }; failAt(false); return nil,false }` on the unfolded rune, before the general path; other variants never mention basicLatinChars in code")
	r.Rule("C15-d", "under ignoreCase BasicLatinLookup applies the Basic Latin filter (< 128) to the folded member - the value the general path compares the folded input with -, not to the member as written: a member outside Basic Latin whose lower-case form lies inside it (U+212A KELVIN SIGN, U+0130) must mark its ASCII forms")
	r.Rule("C15-e", "the end points of a range are not case-mapped one by one (C01-g under this property): the table is computed from the ranges as written with both cases of every rune, the general path from the lower-cased end points, so the two disagree wherever the lower-case image of the range is not the interval between the lower-cased end points ([A-z]i, [Z-a]i)")
	r.Rule("C15-c", "builder.writeCharClassMatcher emits basicLatinChars iff b.basicLatinLookupTable, computed by BasicLatinLookup(ch.Chars, ch.Ranges, ch.UnicodeClasses, ch.IgnoreCase)")

	g := c.G()
	if g == nil {
		return
	}
	bp := g.Pkg("builder")
	model, blfd := c.basicLatinModel()
	if blfd == nil {
		return
	}
	for _, src := range []string{"chars", "ranges", "unicodeClasses"} {
		key := src + "-loop-folds-case"
		r.Check(len(model[key]) == 0 && len(model["signature"]) == 0, "C15-a", "G.builder.BasicLatinLookup:"+key, "", g.Where(blfd.Pos()), "the loop takes ignoreCase into account",
			strings.Join(uniq(append(model[key], model["signature"]...)), "; ")+": the general path tests the folded rune against these members, the table tests the raw rune ([\\p{Lu}]i matches 'A' only with -optimize-basic-latin)")
	}
	basicLatinCaseClosure(c, "C15-a")
	basicLatinNoSkips(c, "C15-a")
	basicLatinSiblingForms(c, "C15-a")
	// ---- d: the Basic Latin filter is applied to what the general path compares with
	r.Check(len(model["chars-fold-before-filter"]) == 0, "C15-d", "G.builder.BasicLatinLookup:chars-fold-before-filter", "", g.Where(blfd.Pos()), "under ignoreCase the member tested against 128 is the folded member",
		strings.Join(uniq(model["chars-fold-before-filter"]), "; ")+" ([\\u212a]i matches k without -optimize-basic-latin and not with it)")
	c01gRangeImage(c, "C15-e")
	// ---- c
	wc := load.FuncDecl(bp, "builder", "writeCharClassMatcher")
	okEmit := false
	if wc != nil {
		// on the normalised paths of the writer (locals read as their values): the table is computed exactly on the
		// paths that hold b.basicLatinLookupTable, from the node's own three member lists and flag
		param := wc.Type.Params.List[0].Names[0].Name
		rv := recvName(wc)
		want := "BasicLatinLookup(" + param + ".Chars," + param + ".Ranges," + param + ".UnicodeClasses," + param + ".IgnoreCase)"
		paths := c.builderNorm().without("BasicLatinLookup").normPaths(wc)
		okEmit = len(paths) > 0
		sawTable := false
		for _, p := range paths {
			has := false
			for _, e := range p {
				if (e.Kind == "call" || e.Kind == "ccall") && strings.HasPrefix(e.Text, "BasicLatinLookup(") {
					has = true
					if e.Text != want {
						okEmit = false
					}
				}
			}
			if has {
				sawTable = true
			}
			// (a path that ends before the flag is consulted - the nil node - emits no table)
			if has != p.holds(rv+".basicLatinLookupTable") {
				okEmit = false
			}
		}
		okEmit = okEmit && sawTable
	}
	// the members the general path tests are the node's own lists: table and emitted lists come from the same fields
	builderPairingN(c, "C15-c", "writeCharClassMatcher")
	r.Check(okEmit, "C15-c", "G.builder.writeCharClassMatcher:table-emission", "", "builder/builder.go", "under b.basicLatinLookupTable, from the node's own members and flag", "the table is not emitted exactly under b.basicLatinLookupTable from (Chars, Ranges, UnicodeClasses, IgnoreCase)")
	// ---- b
	nB := 0
	for _, v := range c.SemanticVariants() {
		pf := v.Func("parser", "parseCharClassMatcher")
		if pf == nil {
			r.Fatal("variant %s: parseCharClassMatcher missing", v.Name)
			continue
		}
		mentions := 0
		for _, f := range v.Funcs() {
			if f.Body == nil {
				continue
			}
			ast.Inspect(f.Body, func(n ast.Node) bool {
				if s, ok := n.(*ast.SelectorExpr); ok && s.Sel.Name == "basicLatinChars" {
					mentions++
				}
				return true
			})
		}
		if !v.Params.BasicLatinLookupTable {
			r.Check(mentions == 0, "C15-b", "T.parseCharClassMatcher:fast-path", v.Name, v.Where(pf.Pos()), "no fast path", "basicLatinChars is used although the variant has no lookup table")
			continue
		}
		nB++
		param := pf.Type.Params.List[0].Names[0].Name
		rn := "p.pt.rn"
		// on the normalised paths: with the rune as read (unfolded) below 128 the table entry alone decides - a hit
		// consumes the rune and reports success, a miss reports failure and consumes nothing - and nothing else is
		// consulted; at 128 and above the table is not touched
		ok := true
		detail := ""
		bad := func(s string) {
			ok = false
			if detail == "" {
				detail = s
			}
		}
		entry := param + ".basicLatinChars[" + rn + "]"
		nHit, nMiss := 0, 0
		for _, p0 := range c.vnorm(v).without("read", "restore", "failAt", "sliceFrom", "in", "out", "addErr", "addErrAt").normPaths(pf) {
			// the bound of the table may be spelled as its length (an array: a constant), on an integer conversion of
			// the rune, and accompanied by the vacuous lower bound of an index
			tlen := "len(" + param + ".basicLatinChars)"
			p := make(bpath, 0, len(p0))
			for _, e := range p0 {
				t := e.Text
				t = strings.ReplaceAll(t, "int("+rn+")<"+tlen, rn+"<128")
				t = strings.ReplaceAll(t, "int("+rn+")>="+tlen, rn+">=128")
				t = strings.ReplaceAll(t, rn+"<"+tlen, rn+"<128")
				t = strings.ReplaceAll(t, rn+">="+tlen, rn+">=128")
				if e.Kind == "+" {
					// rn >= 0 holds for every rune read() stores; a disjunct rn < 0 never does
					if t == rn+">=0" {
						continue
					}
					t = strings.TrimSuffix(strings.TrimPrefix(t, rn+"<0||"), "||"+rn+"<0")
				}
				if (e.Kind == "call" || e.Kind == "ccall") && t == tlen {
					continue
				}
				e.Text = t
				p = append(p, e)
			}
			usesTable := false
			for _, e := range p {
				if strings.Contains(e.Text, param+".basicLatinChars") {
					usesTable = true
					if !strings.Contains(e.Text, entry) {
						bad("the lookup table is indexed by something else than the rune as read: " + abbreviate(e.Text))
					}
				}
			}
			if !p.holds(rn + "<128") {
				if usesTable {
					bad("the lookup table is consulted on a path that does not establish " + rn + " < 128")
				}
				if !p.holds(rn+">=128") && p.evIndex("loop", 0, func(s string) bool { return strings.Contains(s, param+".") }) >= 0 {
					bad("the general path is entered without testing the rune against 128")
				}
				continue
			}
			// fast path
			if p.hasCall("unicode.ToLower(") {
				bad("the rune is folded on the fast path (the table already contains both cases)")
			}
			if p.evIndex("loop", 0, func(s string) bool { return strings.Contains(s, param+".") }) >= 0 {
				bad("the member lists are searched on the fast path")
			}
			hit := p.holds(entry+"!="+param+".inverted") || (p.holds(entry) && p.holds("!"+param+".inverted")) || (p.holds("!"+entry) && p.holds(param+".inverted"))
			miss := p.holds(entry+"=="+param+".inverted") || (p.holds(entry) && p.holds(param+".inverted")) || (p.holds("!"+entry) && p.holds("!"+param+".inverted"))
			ret := splitTop(lastReturn(p), ",")
			switch {
			case hit && !miss:
				nHit++
				if !p.hasCall("p.read()") || !p.hasCall("p.failAt(true,") || len(ret) != 2 || ret[1] != "true" || !strings.HasPrefix(ret[0], "p.sliceFrom(") {
					bad("a table hit does not consume the rune, report success and return the matched text")
				}
			case miss && !hit:
				nMiss++
				if p.hasCall("p.read()") || !p.hasCall("p.failAt(false,") || len(ret) != 2 || ret[1] != "false" || ret[0] != "nil" {
					bad("a table miss does not report failure without consuming")
				}
			default:
				bad("the fast path is not decided by the table entry compared with the inverted flag [" + abbreviate(strings.Join(p.facts(), " ")) + "]")
			}
		}
		if nHit == 0 || nMiss == 0 {
			bad(fmt.Sprintf("fast path found=%t (hits %d, misses %d)", nHit+nMiss > 0, nHit, nMiss))
		}
		r.Check(ok, "C15-b", "T.parseCharClassMatcher:fast-path", v.Name, v.Where(pf.Pos()), "cur < 128 on the raw rune ⇒ table decision XOR inverted; otherwise the general path", detail)
	}
	r.Min("BasicLatinLookupTable variants", 8, nB)
}

// basicLatinCaseClosure: BasicLatinLookup receives the raw (un-lowered) members, while the general path compares the
// lower-cased input with lower-cased members. For chars and ranges the table must therefore contain, under
// ignoreCase, both the upper-case and the lower-case twin of every member: the stores under the ignoreCase guard
// must use both unicode.ToUpper and unicode.ToLower to compute indices (unicode.SimpleFold is not an alternative: it can leave the Basic Latin block).
func basicLatinCaseClosure(c *Ctx, rule string) {
	r := c.R
	g := c.G()
	model, fd := c.basicLatinModel()
	if fd == nil {
		return
	}
	for _, src := range []string{"chars", "ranges"} {
		key := src + "-loop-adds-both-cases"
		r.Check(len(model[key]) == 0, rule, "G.builder.BasicLatinLookup:"+key, "", g.Where(fd.Pos()), "the member itself plus, under ignoreCase, both its upper-case and lower-case twin",
			strings.Join(uniq(model[key]), "; ")+": the raw members are passed in, so a member written in one case lacks its twin in the other ([XYZ]i would not match x with -optimize-basic-latin)")
	}
}

// basicLatinNoSkips: the table must decide every one of the 128 runes by the same membership predicate the general
// path uses. Each member loop may be guarded only by the range tests (< 128, within the range), the ignoreCase flag,
// the case tests and unicode.Is; it may not skip members or runes by any other condition, continue, break or return.
func basicLatinNoSkips(c *Ctx, rule string) {
	r := c.R
	g := c.G()
	model, fd := c.basicLatinModel()
	if fd == nil {
		return
	}
	key := "decides-all-128-runes-by-membership-only"
	r.Check(len(model[key]) == 0, rule, "G.builder.BasicLatinLookup:"+key, "", g.Where(fd.Pos()), "table entries are stored under range/case/membership tests only; no skipping",
		strings.Join(uniq(model[key]), "; ")+": the general path tests every class with unicode.Is for every rune, so the table may not skip any")
}

// basicLatinSiblingForms: two exact agreements between the table computation and the general path.
// (1) ranges are inclusive at both ends on both sides; (2) a Unicode class decides rune r by
// unicode.Is(rangeTable(class), fold(r)) with fold = unicode.ToLower exactly under ignoreCase - the same fold the
// general path applies, exactly under its ignoreCase flag, before it tests any member source.
func basicLatinSiblingForms(c *Ctx, rule string) {
	r := c.R
	g := c.G()
	if g == nil {
		return
	}
	fd := load.FuncDecl(g.Pkg("builder"), "", "BasicLatinLookup")
	if fd == nil {
		return
	}
	var params []string
	for _, f := range fd.Type.Params.List {
		for _, n := range f.Names {
			params = append(params, n.Name)
		}
	}
	if len(params) != 4 {
		return
	}
	_ = params
	// ---- general path (every semantic variant): fold and range test
	type general struct{ loIncl, hiIncl, ok bool }
	var gen *general
	for _, v := range c.SemanticVariants() {
		pf := v.Func("parser", "parseCharClassMatcher")
		if pf == nil {
			continue
		}
		param := pf.Type.Params.List[0].Names[0].Name
		var bad []string
		// on the normalised paths of the function (helpers expanded): the input rune is folded exactly on the paths
		// where <param>.ignoreCase holds, before any member source is tested, and every member test uses the folded
		// rune there; the range test of the pair loop reads low <= rune <= high
		cur := general{}
		nGeneral := 0
		rangeRe := regexp.MustCompile(`^(.+?)(>=|>)` + regexp.QuoteMeta(param) + `\.ranges\[(\$[0-9]+|#[0-9]+)\]$`)
		rangeHiRe := regexp.MustCompile(`^(.+?)(<=|<)` + regexp.QuoteMeta(param) + `\.ranges\[(\$[0-9]+|#[0-9]+)\+1\]$`)
		rangeLoFlipRe := regexp.MustCompile(`^` + regexp.QuoteMeta(param) + `\.ranges\[(\$[0-9]+|#[0-9]+)\](<=|<)(.+)$`)
		rangeHiFlipRe := regexp.MustCompile(`^` + regexp.QuoteMeta(param) + `\.ranges\[(\$[0-9]+|#[0-9]+)\+1\](>=|>)(.+)$`)
		nc := c.vnorm(v).without("read", "restore", "failAt", "sliceFrom", "in", "out", "addErr", "addErrAt")
		var effective []bpath
		helperCall := regexp.MustCompile(`^` + regexp.QuoteMeta(param) + `\.([A-Za-z_]\w*)\((.+)\)$`)
		for _, p := range nc.normPaths(pf) {
			// the member scan in a method of the matcher node (`chr.contains(cur)`): its paths, with the receiver and the
			// rune parameter spelled as at the call, continue the path of the evaluator
			expanded := false
			for i, e := range p {
				if e.Kind != "call" {
					continue
				}
				m := helperCall.FindStringSubmatch(e.Text)
				if m == nil {
					continue
				}
				hd := v.Func("charClassMatcher", m[1])
				if hd == nil || hd.Body == nil || hd.Recv == nil || len(hd.Recv.List[0].Names) != 1 || hd.Type.Params.NumFields() != 1 || len(hd.Type.Params.List[0].Names) != 1 {
					continue
				}
				recvRe := regexp.MustCompile(`\b` + regexp.QuoteMeta(hd.Recv.List[0].Names[0].Name) + `\b`)
				argRe := regexp.MustCompile(`\b` + regexp.QuoteMeta(hd.Type.Params.List[0].Names[0].Name) + `\b`)
				for _, hq := range nc.normPaths(hd) {
					q := append(bpath{}, p[:i]...)
					for _, he := range hq {
						t := recvRe.ReplaceAllString(he.Text, "\x00R")
						t = argRe.ReplaceAllLiteralString(t, m[2])
						he.Text = strings.ReplaceAll(t, "\x00R", param)
						q = append(q, he)
					}
					effective = append(effective, q)
				}
				expanded = true
				break
			}
			if !expanded {
				effective = append(effective, p)
			}
		}
		for _, p := range effective {
			iLoop := p.evIndex("loop", 0, func(s string) bool {
				return strings.Contains(s, param+".chars") || strings.Contains(s, param+".ranges") || strings.Contains(s, param+".classes")
			})
			if iLoop < 0 {
				continue // not the general path (table path, end of input)
			}
			nGeneral++
			iFold := p.evIndex("call", 0, func(s string) bool { return strings.HasPrefix(s, "unicode.ToLower(") })
			folds := p.holds(param + ".ignoreCase")
			if !folds && !p.holds("!"+param+".ignoreCase") {
				bad = append(bad, "whether the input rune is folded depends on more than "+param+".ignoreCase ["+abbreviate(strings.Join(p[:iLoop].facts(), " "))+"]: the table is computed for fold-then-test on all three member sources")
			}
			switch {
			case folds && (iFold < 0 || iFold > iLoop):
				bad = append(bad, "with "+param+".ignoreCase set the input rune is not folded before the first member source is tested: the table is computed for fold-then-test on all three member sources")
			case !folds && iFold >= 0:
				bad = append(bad, "the input rune is folded on a path that does not establish "+param+".ignoreCase")
			}
			// the member tests: conditions assumed on the path, and the conjuncts of a value stored into a result flag
			// (`found = cur >= lo && cur <= hi` decides like `if cur >= lo && cur <= hi { found = true }`)
			tests := p[iLoop:].facts()
			for _, e := range p[iLoop:] {
				if e.Kind != "set" {
					continue
				}
				if k := indexTop(e.Text, "="); k > 0 && k+1 < len(e.Text) && e.Text[k+1] != '=' {
					for _, d := range splitTop(e.Text[k+1:], "||") {
						tests = append(tests, splitTop(d, "&&")...)
					}
				}
			}
			for _, f := range tests {
				mentions := strings.Contains(f, param+".chars[") || strings.Contains(f, param+".ranges[") || strings.Contains(f, param+".classes[")
				if !mentions {
					continue
				}
				if folds != strings.Contains(f, "unicode.ToLower(") {
					bad = append(bad, "the member test `"+abbreviate(f)+"` does not use the rune as folded (or not) for this path")
				}
				if m := rangeRe.FindStringSubmatch(f); m != nil {
					cur.ok = true
					cur.loIncl = m[2] == ">="
				}
				if m := rangeHiRe.FindStringSubmatch(f); m != nil {
					cur.hiIncl = m[2] == "<="
				}
				// the same tests with the pair on the left: ranges[i] <= r, ranges[i+1] >= r
				if m := rangeLoFlipRe.FindStringSubmatch(f); m != nil {
					cur.ok = true
					cur.loIncl = m[2] == "<="
				}
				if m := rangeHiFlipRe.FindStringSubmatch(f); m != nil {
					cur.hiIncl = m[2] == ">="
				}
			}
		}
		if nGeneral == 0 {
			bad = append(bad, "no path of the general (non-table) matching was found")
		}
		bad = uniq(bad)
		if !cur.ok {
			bad = append(bad, "range test `cur >= ranges[i] && cur <= ranges[i+1]` not found")
		} else if gen == nil {
			gg := cur
			gen = &gg
		} else if *gen != cur {
			bad = append(bad, "range test differs between variants")
		}
		r.Check(len(bad) == 0, rule, "T.parseCharClassMatcher:general-path-fold-and-range-test", v.Name, v.Where(pf.Pos()), "folds under ignoreCase only, before all member tests; inclusive range test", strings.Join(bad, "; "))
	}
	// ---- (1) / (2): the table side, from the model of BasicLatinLookup
	model, blfd := c.basicLatinModel()
	if blfd == nil {
		return
	}
	inclusive := gen != nil && gen.loIncl && gen.hiIncl
	k1 := "range-bounds-as-general-path"
	bad1 := append([]string{}, model[k1]...)
	if !inclusive {
		bad1 = append(bad1, "the general path does not test ranges with both ends inclusive (the table enumerates low through high)")
	}
	r.Check(len(bad1) == 0, rule, "G.builder.BasicLatinLookup:"+k1, "", g.Where(blfd.Pos()), "both ends inclusive on both sides", strings.Join(uniq(bad1), "; "))
	k2 := "class-decision-as-general-path"
	r.Check(len(model[k2]) == 0, rule, "G.builder.BasicLatinLookup:"+k2, "", g.Where(blfd.Pos()), "table[r] = unicode.Is(rangeTable(class), ignoreCase ? ToLower(r) : r), as the general path", strings.Join(uniq(model[k2]), "; "))
}
