package rules

import (
	"fmt"
	"go/ast"
	"sort"
	"strings"

	"pigeonverif/internal/load"
)

// C15 — -optimize-basic-latin is a pure optimisation of character classes.
func C15(c *Ctx) {
	r := c.R
	r.Technique = "sibling agreement between the general class-matching procedure and builder.BasicLatinLookup (uniform case folding over the three member sources); wiring of the fast path in the 8 BasicLatinLookupTable variants and of the table emission in the builder"
	r.Explanation = "Equality of the two procedures over all classes × 128 runes is a semantic question that static analysis of this kind does not settle (enumerating it means running code); it is not claimed. One structural necessary condition is decided: the general path folds the input rune before testing all three member sources (characters, ranges, Unicode classes), so the table computation must take ignoreCase into account in each of its three member loops. Also decided: the fast path is taken only for cur < 128 on the unfolded rune, consults basicLatinChars[cur] != inverted, reports to failAt like the general path and otherwise falls through to the unchanged general path; the table is emitted from the node's own members and flag exactly when the variant has the fast path. Not decided: everything else, e.g. the table is computed from raw range end-points while the emitted ranges are lowered end-point-wise ([Z-a]i differs; observation O2 in DESIGN.md)."
	r.Assumptions = []string{"C01/C12 cover the general path"}
	r.Rule("C15-a", "BasicLatinLookup handles ignoreCase inside each of its member loops (chars, ranges, unicodeClasses), as the general path folds the rune before all three tests")
	r.Rule("C15-b", "parseCharClassMatcher (BasicLatinLookupTable variants): `if cur < 128 { if chr.basicLatinChars[cur] != chr.inverted { read; failAt(true); return slice,true }; failAt(false); return nil,false }` on the unfolded rune, before the general path; other variants never mention basicLatinChars in code")
	r.Rule("C15-c", "builder.writeCharClassMatcher emits basicLatinChars iff b.basicLatinLookupTable, computed by BasicLatinLookup(ch.Chars, ch.Ranges, ch.UnicodeClasses, ch.IgnoreCase)")

	g := c.G()
	if g == nil {
		return
	}
	bp := g.Pkg("builder")
	fd := load.FuncDecl(bp, "", "BasicLatinLookup")
	if fd == nil {
		r.Fatal("builder.BasicLatinLookup not found")
		return
	}
	var params []string
	for _, f := range fd.Type.Params.List {
		for _, n := range f.Names {
			params = append(params, n.Name)
		}
	}
	if len(params) != 4 {
		r.Unk("C15-a", "G.builder.BasicLatinLookup:signature", "", g.Where(fd.Pos()), "unexpected parameters")
		return
	}
	ic := params[3]
	for i, src := range params[:3] {
		var loop ast.Stmt
		for _, st := range fd.Body.List {
			switch x := st.(type) {
			case *ast.RangeStmt:
				if nospace(x.X) == src {
					loop = x
				}
			case *ast.ForStmt:
				if x.Cond != nil && strings.Contains(nospace(x.Cond), "len("+src+")") {
					loop = x
				}
			}
		}
		construct := "G.builder.BasicLatinLookup:" + []string{"chars", "ranges", "unicodeClasses"}[i] + "-loop-folds-case"
		if loop == nil {
			r.Unk("C15-a", construct, "", g.Where(fd.Pos()), "member loop over "+src+" not found")
			continue
		}
		uses := false
		ast.Inspect(loop, func(n ast.Node) bool {
			if id, ok := n.(*ast.Ident); ok && id.Name == ic {
				uses = true
			}
			return true
		})
		r.Check(uses, "C15-a", construct, "", g.Where(loop.Pos()), "the loop takes "+ic+" into account",
			"the loop over "+src+" ignores "+ic+": the general path tests the folded rune against these members, the table tests the raw rune ([\\p{Lu}]i matches 'A' only with -optimize-basic-latin)")
	}
	basicLatinCaseClosure(c, "C15-a")
	basicLatinNoSkips(c, "C15-a")
	// ---- c
	wc := load.FuncDecl(bp, "builder", "writeCharClassMatcher")
	okEmit := false
	if wc != nil {
		param := wc.Type.Params.List[0].Names[0].Name
		for _, ce := range callsIn(wc.Body) {
			if callName(ce) == "BasicLatinLookup" {
				gs := guardsOf(wc.Body, ce.Pos())
				args := []string{}
				for _, a := range ce.Args {
					args = append(args, nospace(a))
				}
				okEmit = len(gs) == 1 && gs[0] == "b.basicLatinLookupTable" && strings.Join(args, ",") == param+".Chars,"+param+".Ranges,"+param+".UnicodeClasses,"+param+".IgnoreCase"
			}
		}
	}
	r.Check(okEmit, "C15-c", "G.builder.writeCharClassMatcher:table-emission", "", "builder/builder.go", "under b.basicLatinLookupTable, from the node's own members and flag", "the table is not emitted exactly under b.basicLatinLookupTable from (Chars, Ranges, UnicodeClasses, IgnoreCase)")
	// ---- b
	nB := 0
	for _, v := range c.SemanticVariants() {
		pf := v.Func("parser", "parseCharClassMatcher")
		if pf == nil {
			r.Fatal("variant %s: parseCharClassMatcher missing", v.Name)
			continue
		}
		mentions := 0
		for _, f := range v.Funcs() {
			if f.Body == nil {
				continue
			}
			ast.Inspect(f.Body, func(n ast.Node) bool {
				if s, ok := n.(*ast.SelectorExpr); ok && s.Sel.Name == "basicLatinChars" {
					mentions++
				}
				return true
			})
		}
		if !v.Params.BasicLatinLookupTable {
			r.Check(mentions == 0, "C15-b", "T.parseCharClassMatcher:fast-path", v.Name, v.Where(pf.Pos()), "no fast path", "basicLatinChars is used although the variant has no lookup table")
			continue
		}
		nB++
		param := pf.Type.Params.List[0].Names[0].Name
		var fast *ast.IfStmt
		curDef := ""
		folded := false
		for _, st := range pf.Body.List {
			switch x := st.(type) {
			case *ast.AssignStmt:
				if nospace(x.Lhs[0]) == "cur" {
					if curDef == "" {
						curDef = nospace(x.Rhs[0])
					} else if fast == nil {
						folded = true
					}
				}
			case *ast.IfStmt:
				if fast == nil && strings.Contains(nospace(x.Cond), "cur<128") {
					fast = x
				} else if fast == nil {
					// any earlier conditional (other than debug tracing) may change what the fast path sees
					if !strings.Contains(nospace(x.Cond), "p.debug") {
						folded = true
					}
				}
			}
		}
		ok := fast != nil && nospace(fast.Cond) == "cur<128" && curDef == "p.pt.rn" && !folded && mentions == 1
		detail := ""
		if ok {
			// shape of the body
			seq := ""
			ast.Inspect(fast.Body, func(n ast.Node) bool {
				switch x := n.(type) {
				case *ast.IfStmt:
					seq += "if(" + nospace(x.Cond) + ");"
				case *ast.CallExpr:
					if s := callSel(x); s == "read" || s == "failAt" || s == "sliceFrom" {
						seq += s
						if s == "failAt" {
							seq += "(" + nospace(x.Args[0]) + ")"
						}
						seq += ";"
					}
				case *ast.ReturnStmt:
					seq += "return " + nospace(x.Results[1]) + ";"
				}
				return true
			})
			want := "if(" + param + ".basicLatinChars[cur]!=" + param + ".inverted);read;failAt(true);return true;sliceFrom;failAt(false);return false;"
			if seq != want {
				ok = false
				detail = "fast-path body is [" + seq + "]"
			}
		} else {
			detail = fmt.Sprintf("fast path found=%t cur:=%s changed-before=%t mentions=%d", fast != nil, curDef, folded, mentions)
		}
		r.Check(ok, "C15-b", "T.parseCharClassMatcher:fast-path", v.Name, v.Where(pf.Pos()), "cur < 128 on the raw rune ⇒ table decision XOR inverted; otherwise the general path", detail)
	}
	r.Min("BasicLatinLookupTable variants", 8, nB)
}

// basicLatinCaseClosure: BasicLatinLookup receives the raw (un-lowered) members, while the general path compares the
// lower-cased input with lower-cased members. For chars and ranges the table must therefore contain, under
// ignoreCase, both the upper-case and the lower-case twin of every member: the stores under the ignoreCase guard
// must use both unicode.ToUpper and unicode.ToLower to compute indices (unicode.SimpleFold is not an alternative: it can leave the Basic Latin block).
func basicLatinCaseClosure(c *Ctx, rule string) {
	r := c.R
	g := c.G()
	if g == nil {
		return
	}
	fd := load.FuncDecl(g.Pkg("builder"), "", "BasicLatinLookup")
	if fd == nil {
		r.Fatal("builder.BasicLatinLookup not found")
		return
	}
	var params []string
	for _, f := range fd.Type.Params.List {
		for _, n := range f.Names {
			params = append(params, n.Name)
		}
	}
	if len(params) != 4 {
		return
	}
	ic := params[3]
	for i, src := range params[:2] {
		var loop ast.Stmt
		for _, st := range fd.Body.List {
			switch x := st.(type) {
			case *ast.RangeStmt:
				if nospace(x.X) == src {
					loop = x
				}
			case *ast.ForStmt:
				if x.Cond != nil && strings.Contains(nospace(x.Cond), "len("+src+")") {
					loop = x
				}
			}
		}
		construct := "G.builder.BasicLatinLookup:" + []string{"chars", "ranges"}[i] + "-loop-adds-both-cases"
		if loop == nil {
			r.Unk(rule, construct, "", g.Where(fd.Pos()), "member loop over "+src+" not found")
			continue
		}
		up, low, raw := false, false, false
		ast.Inspect(loop, func(n ast.Node) bool {
			as, ok := n.(*ast.AssignStmt)
			if !ok || len(as.Lhs) != 1 {
				return true
			}
			ix, ok := as.Lhs[0].(*ast.IndexExpr)
			if !ok || !strings.HasSuffix(nospace(ix.X), "basicLatinChars") || nospace(as.Rhs[0]) != "true" {
				return true
			}
			underIC := false
			for _, gd := range guardsOf(loop, as.Pos()) {
				if gd == ic || strings.HasPrefix(gd, ic+"&&") || strings.Contains(gd, "&&"+ic) {
					underIC = true
				}
			}
			idx := nospace(ix.Index)
			switch {
			case strings.Contains(idx, "unicode.ToUpper("):
				up = up || underIC
			case strings.Contains(idx, "unicode.ToLower("):
				low = low || underIC
			default:
				raw = true
			}
			return true
		})
		ok := raw && up && low
		r.Check(ok, rule, construct, "", g.Where(loop.Pos()), "the member itself plus, under "+ic+", both its upper-case and lower-case twin",
			fmt.Sprintf("member stored=%t, upper-case twin under %s=%t, lower-case twin under %s=%t: the raw members are passed in, so a member written in one case lacks its twin in the other ([XYZ]i would not match x with -optimize-basic-latin)", raw, ic, up, ic, low))
	}
}

// basicLatinNoSkips: the table must decide every one of the 128 runes by the same membership predicate the general
// path uses. Each member loop may be guarded only by the range tests (< 128, within the range), the ignoreCase flag,
// the case tests and unicode.Is; it may not skip members or runes by any other condition, continue, break or return.
func basicLatinNoSkips(c *Ctx, rule string) {
	r := c.R
	g := c.G()
	if g == nil {
		return
	}
	fd := load.FuncDecl(g.Pkg("builder"), "", "BasicLatinLookup")
	if fd == nil {
		return
	}
	var params []string
	for _, f := range fd.Type.Params.List {
		for _, n := range f.Names {
			params = append(params, n.Name)
		}
	}
	if len(params) != 4 {
		return
	}
	ic := params[3]
	allowedGuard := func(gd string) bool {
		neg := strings.HasPrefix(gd, "!")
		gd = strings.TrimPrefix(strings.TrimSuffix(strings.TrimPrefix(gd, "!("), ")"), "!")
		switch {
		case gd == ic:
			return true
		case strings.HasSuffix(gd, "<128"):
			return !neg
		case strings.HasPrefix(gd, "unicode.IsLower(") || strings.HasPrefix(gd, "unicode.IsUpper("):
			return true
		case strings.HasPrefix(gd, "unicode.Is("):
			return true
		}
		return false
	}
	var bad []string
	nStores := 0
	for _, st := range fd.Body.List {
		var loopBody *ast.BlockStmt
		switch x := st.(type) {
		case *ast.RangeStmt:
			loopBody = x.Body
		case *ast.ForStmt:
			loopBody = x.Body
		default:
			continue
		}
		ast.Inspect(loopBody, func(n ast.Node) bool {
			switch x := n.(type) {
			case *ast.BranchStmt:
				bad = append(bad, g.Where(x.Pos())+": `"+x.Tok.String()+"` skips members or runes under ["+strings.Join(guardsOf(loopBody, x.Pos()), ";")+"]")
			case *ast.ReturnStmt:
				bad = append(bad, g.Where(x.Pos())+": return inside a member loop")
			case *ast.ForStmt:
				// inner rune loops must cover the whole Basic Latin block they are responsible for
				if x.Cond != nil {
					cond := nospace(x.Cond)
					if !(strings.Contains(cond, "<128")) {
						bad = append(bad, g.Where(x.Pos())+": inner loop bound `"+cond+"` does not run up to 128")
					}
				}
			case *ast.AssignStmt:
				if ix, ok := x.Lhs[0].(*ast.IndexExpr); ok && strings.HasSuffix(nospace(ix.X), "basicLatinChars") {
					nStores++
					for _, gd := range guardsOf(loopBody, x.Pos()) {
						if !allowedGuard(gd) {
							bad = append(bad, g.Where(x.Pos())+": table entry stored under the extra condition `"+gd+"`")
						}
					}
				}
			}
			return true
		})
	}
	// the class loop starts its rune loop at 0
	ast.Inspect(fd.Body, func(n ast.Node) bool {
		if f, ok := n.(*ast.ForStmt); ok && f.Init != nil && f.Cond != nil && nospace(f.Cond) == "r<128" {
			if as, ok := f.Init.(*ast.AssignStmt); ok && nospace(as.Rhs[0]) != "rune(0)" && nospace(as.Rhs[0]) != "0" {
				bad = append(bad, g.Where(f.Pos())+": rune loop over the class starts at "+nospace(as.Rhs[0]))
			}
		}
		return true
	})
	sort.Strings(bad)
	r.Check(len(bad) == 0 && nStores >= 6, rule, "G.builder.BasicLatinLookup:decides-all-128-runes-by-membership-only", "", g.Where(fd.Pos()),
		fmt.Sprintf("%d table stores, guarded only by range/case/membership tests; no skipping", nStores), strings.Join(bad, "; ")+": the general path tests every class with unicode.Is for every rune, so the table may not skip any")
}
