package rules

import (
	"fmt"
	"go/ast"
	"go/token"
	"sort"
	"strings"

	"pigeonverif/internal/load"
)

// C15 — -optimize-basic-latin is a pure optimisation of character classes.
func C15(c *Ctx) {
	r := c.R
	r.Technique = "sibling agreement between the general class-matching procedure and builder.BasicLatinLookup (uniform case folding over the three member sources); wiring of the fast path in the 8 BasicLatinLookupTable variants and of the table emission in the builder"
	r.Explanation = "Equality of the two procedures over all classes × 128 runes is a semantic question that static analysis of this kind does not settle (enumerating it means running code); it is not claimed. One structural necessary condition is decided: the general path folds the input rune before testing all three member sources (characters, ranges, Unicode classes), so the table computation must take ignoreCase into account in each of its three member loops. Also decided: the fast path is taken only for cur < 128 on the unfolded rune, consults basicLatinChars[cur] != inverted, reports to failAt like the general path and otherwise falls through to the unchanged general path; the table is emitted from the node's own members and flag exactly when the variant has the fast path. Not decided: everything else, e.g. the table is computed from raw range end-points while the emitted ranges are lowered end-point-wise ([Z-a]i differs; observation O2 in DESIGN.md)."
	r.Assumptions = []string{"C01/C12 cover the general path"}
	r.Rule("C15-a", "BasicLatinLookup handles ignoreCase inside each of its member loops (chars, ranges, unicodeClasses), as the general path folds the rune before all three tests")
	r.Rule("C15-b", "parseCharClassMatcher (BasicLatinLookupTable variants): `if cur < 128 { if chr.basicLatinChars[cur] != chr.inverted { read; failAt(true); return slice,true }; failAt(false); return nil,false }` on the unfolded rune, before the general path; other variants never mention basicLatinChars in code")
	r.Rule("C15-c", "builder.writeCharClassMatcher emits basicLatinChars iff b.basicLatinLookupTable, computed by BasicLatinLookup(ch.Chars, ch.Ranges, ch.UnicodeClasses, ch.IgnoreCase)")

	g := c.G()
	if g == nil {
		return
	}
	bp := g.Pkg("builder")
	fd := load.FuncDecl(bp, "", "BasicLatinLookup")
	if fd == nil {
		r.Fatal("builder.BasicLatinLookup not found")
		return
	}
	var params []string
	for _, f := range fd.Type.Params.List {
		for _, n := range f.Names {
			params = append(params, n.Name)
		}
	}
	if len(params) != 4 {
		r.Unk("C15-a", "G.builder.BasicLatinLookup:signature", "", g.Where(fd.Pos()), "unexpected parameters")
		return
	}
	ic := params[3]
	for i, src := range params[:3] {
		var loop ast.Stmt
		for _, st := range fd.Body.List {
			switch x := st.(type) {
			case *ast.RangeStmt:
				if nospace(x.X) == src {
					loop = x
				}
			case *ast.ForStmt:
				if x.Cond != nil && strings.Contains(nospace(x.Cond), "len("+src+")") {
					loop = x
				}
			}
		}
		construct := "G.builder.BasicLatinLookup:" + []string{"chars", "ranges", "unicodeClasses"}[i] + "-loop-folds-case"
		if loop == nil {
			r.Unk("C15-a", construct, "", g.Where(fd.Pos()), "member loop over "+src+" not found")
			continue
		}
		uses := false
		ast.Inspect(loop, func(n ast.Node) bool {
			if id, ok := n.(*ast.Ident); ok && id.Name == ic {
				uses = true
			}
			return true
		})
		r.Check(uses, "C15-a", construct, "", g.Where(loop.Pos()), "the loop takes "+ic+" into account",
			"the loop over "+src+" ignores "+ic+": the general path tests the folded rune against these members, the table tests the raw rune ([\\p{Lu}]i matches 'A' only with -optimize-basic-latin)")
	}
	basicLatinCaseClosure(c, "C15-a")
	basicLatinNoSkips(c, "C15-a")
	basicLatinSiblingForms(c, "C15-a")
	// ---- c
	wc := load.FuncDecl(bp, "builder", "writeCharClassMatcher")
	okEmit := false
	if wc != nil {
		param := wc.Type.Params.List[0].Names[0].Name
		for _, ce := range callsIn(wc.Body) {
			if callName(ce) == "BasicLatinLookup" {
				gs := guardsOf(wc.Body, ce.Pos())
				args := []string{}
				for _, a := range ce.Args {
					args = append(args, nospace(a))
				}
				okEmit = len(gs) == 1 && gs[0] == "b.basicLatinLookupTable" && strings.Join(args, ",") == param+".Chars,"+param+".Ranges,"+param+".UnicodeClasses,"+param+".IgnoreCase"
			}
		}
	}
	// the members the general path tests are the node's own lists: table and emitted lists come from the same fields
	builderPairing(c, "C15-c", "writeCharClassMatcher")
	r.Check(okEmit, "C15-c", "G.builder.writeCharClassMatcher:table-emission", "", "builder/builder.go", "under b.basicLatinLookupTable, from the node's own members and flag", "the table is not emitted exactly under b.basicLatinLookupTable from (Chars, Ranges, UnicodeClasses, IgnoreCase)")
	// ---- b
	nB := 0
	for _, v := range c.SemanticVariants() {
		pf := v.Func("parser", "parseCharClassMatcher")
		if pf == nil {
			r.Fatal("variant %s: parseCharClassMatcher missing", v.Name)
			continue
		}
		mentions := 0
		for _, f := range v.Funcs() {
			if f.Body == nil {
				continue
			}
			ast.Inspect(f.Body, func(n ast.Node) bool {
				if s, ok := n.(*ast.SelectorExpr); ok && s.Sel.Name == "basicLatinChars" {
					mentions++
				}
				return true
			})
		}
		if !v.Params.BasicLatinLookupTable {
			r.Check(mentions == 0, "C15-b", "T.parseCharClassMatcher:fast-path", v.Name, v.Where(pf.Pos()), "no fast path", "basicLatinChars is used although the variant has no lookup table")
			continue
		}
		nB++
		param := pf.Type.Params.List[0].Names[0].Name
		var fast *ast.IfStmt
		curDef := ""
		folded := false
		for _, st := range pf.Body.List {
			switch x := st.(type) {
			case *ast.AssignStmt:
				if nospace(x.Lhs[0]) == "cur" {
					if curDef == "" {
						curDef = nospace(x.Rhs[0])
					} else if fast == nil {
						folded = true
					}
				}
			case *ast.IfStmt:
				if fast == nil && strings.Contains(nospace(x.Cond), "cur<128") {
					fast = x
				} else if fast == nil {
					// any earlier conditional (other than debug tracing) may change what the fast path sees
					if !strings.Contains(nospace(x.Cond), "p.debug") {
						folded = true
					}
				}
			}
		}
		ok := fast != nil && nospace(fast.Cond) == "cur<128" && curDef == "p.pt.rn" && !folded && mentions == 1
		detail := ""
		if ok {
			// shape of the body
			seq := ""
			ast.Inspect(fast.Body, func(n ast.Node) bool {
				switch x := n.(type) {
				case *ast.IfStmt:
					seq += "if(" + nospace(x.Cond) + ");"
				case *ast.CallExpr:
					if s := callSel(x); s == "read" || s == "failAt" || s == "sliceFrom" {
						seq += s
						if s == "failAt" {
							seq += "(" + nospace(x.Args[0]) + ")"
						}
						seq += ";"
					}
				case *ast.ReturnStmt:
					seq += "return " + nospace(x.Results[1]) + ";"
				}
				return true
			})
			want := "if(" + param + ".basicLatinChars[cur]!=" + param + ".inverted);read;failAt(true);return true;sliceFrom;failAt(false);return false;"
			if seq != want {
				ok = false
				detail = "fast-path body is [" + seq + "]"
			}
		} else {
			detail = fmt.Sprintf("fast path found=%t cur:=%s changed-before=%t mentions=%d", fast != nil, curDef, folded, mentions)
		}
		r.Check(ok, "C15-b", "T.parseCharClassMatcher:fast-path", v.Name, v.Where(pf.Pos()), "cur < 128 on the raw rune ⇒ table decision XOR inverted; otherwise the general path", detail)
	}
	r.Min("BasicLatinLookupTable variants", 8, nB)
}

// basicLatinCaseClosure: BasicLatinLookup receives the raw (un-lowered) members, while the general path compares the
// lower-cased input with lower-cased members. For chars and ranges the table must therefore contain, under
// ignoreCase, both the upper-case and the lower-case twin of every member: the stores under the ignoreCase guard
// must use both unicode.ToUpper and unicode.ToLower to compute indices (unicode.SimpleFold is not an alternative: it can leave the Basic Latin block).
func basicLatinCaseClosure(c *Ctx, rule string) {
	r := c.R
	g := c.G()
	if g == nil {
		return
	}
	fd := load.FuncDecl(g.Pkg("builder"), "", "BasicLatinLookup")
	if fd == nil {
		r.Fatal("builder.BasicLatinLookup not found")
		return
	}
	var params []string
	for _, f := range fd.Type.Params.List {
		for _, n := range f.Names {
			params = append(params, n.Name)
		}
	}
	if len(params) != 4 {
		return
	}
	ic := params[3]
	for i, src := range params[:2] {
		var loop ast.Stmt
		for _, st := range fd.Body.List {
			switch x := st.(type) {
			case *ast.RangeStmt:
				if nospace(x.X) == src {
					loop = x
				}
			case *ast.ForStmt:
				if x.Cond != nil && strings.Contains(nospace(x.Cond), "len("+src+")") {
					loop = x
				}
			}
		}
		construct := "G.builder.BasicLatinLookup:" + []string{"chars", "ranges"}[i] + "-loop-adds-both-cases"
		if loop == nil {
			r.Unk(rule, construct, "", g.Where(fd.Pos()), "member loop over "+src+" not found")
			continue
		}
		up, low, raw := false, false, false
		ast.Inspect(loop, func(n ast.Node) bool {
			as, ok := n.(*ast.AssignStmt)
			if !ok || len(as.Lhs) != 1 {
				return true
			}
			ix, ok := as.Lhs[0].(*ast.IndexExpr)
			if !ok || !strings.HasSuffix(nospace(ix.X), "basicLatinChars") || nospace(as.Rhs[0]) != "true" {
				return true
			}
			underIC := false
			for _, gd := range guardsOf(loop, as.Pos()) {
				if gd == ic || strings.HasPrefix(gd, ic+"&&") || strings.Contains(gd, "&&"+ic) {
					underIC = true
				}
			}
			idx := nospace(ix.Index)
			switch {
			case strings.Contains(idx, "unicode.ToUpper("):
				up = up || underIC
			case strings.Contains(idx, "unicode.ToLower("):
				low = low || underIC
			default:
				raw = true
			}
			return true
		})
		ok := raw && up && low
		r.Check(ok, rule, construct, "", g.Where(loop.Pos()), "the member itself plus, under "+ic+", both its upper-case and lower-case twin",
			fmt.Sprintf("member stored=%t, upper-case twin under %s=%t, lower-case twin under %s=%t: the raw members are passed in, so a member written in one case lacks its twin in the other ([XYZ]i would not match x with -optimize-basic-latin)", raw, ic, up, ic, low))
	}
}

// basicLatinNoSkips: the table must decide every one of the 128 runes by the same membership predicate the general
// path uses. Each member loop may be guarded only by the range tests (< 128, within the range), the ignoreCase flag,
// the case tests and unicode.Is; it may not skip members or runes by any other condition, continue, break or return.
func basicLatinNoSkips(c *Ctx, rule string) {
	r := c.R
	g := c.G()
	if g == nil {
		return
	}
	fd := load.FuncDecl(g.Pkg("builder"), "", "BasicLatinLookup")
	if fd == nil {
		return
	}
	var params []string
	for _, f := range fd.Type.Params.List {
		for _, n := range f.Names {
			params = append(params, n.Name)
		}
	}
	if len(params) != 4 {
		return
	}
	ic := params[3]
	allowedGuard := func(gd string) bool {
		neg := strings.HasPrefix(gd, "!")
		gd = strings.TrimPrefix(strings.TrimSuffix(strings.TrimPrefix(gd, "!("), ")"), "!")
		switch {
		case gd == ic:
			return true
		case strings.HasSuffix(gd, "<128"):
			return !neg
		case strings.HasPrefix(gd, "unicode.IsLower(") || strings.HasPrefix(gd, "unicode.IsUpper("):
			return true
		case strings.HasPrefix(gd, "unicode.Is("):
			return true
		}
		return false
	}
	var bad []string
	nStores := 0
	for _, st := range fd.Body.List {
		var loopBody *ast.BlockStmt
		switch x := st.(type) {
		case *ast.RangeStmt:
			loopBody = x.Body
		case *ast.ForStmt:
			loopBody = x.Body
		default:
			continue
		}
		ast.Inspect(loopBody, func(n ast.Node) bool {
			switch x := n.(type) {
			case *ast.BranchStmt:
				bad = append(bad, g.Where(x.Pos())+": `"+x.Tok.String()+"` skips members or runes under ["+strings.Join(guardsOf(loopBody, x.Pos()), ";")+"]")
			case *ast.ReturnStmt:
				bad = append(bad, g.Where(x.Pos())+": return inside a member loop")
			case *ast.ForStmt:
				// inner rune loops must cover the whole Basic Latin block they are responsible for
				if x.Cond != nil {
					cond := nospace(x.Cond)
					if !(strings.Contains(cond, "<128")) {
						bad = append(bad, g.Where(x.Pos())+": inner loop bound `"+cond+"` does not run up to 128")
					}
				}
			case *ast.AssignStmt:
				if ix, ok := x.Lhs[0].(*ast.IndexExpr); ok && strings.HasSuffix(nospace(ix.X), "basicLatinChars") {
					nStores++
					for _, gd := range guardsOf(loopBody, x.Pos()) {
						if !allowedGuard(gd) {
							bad = append(bad, g.Where(x.Pos())+": table entry stored under the extra condition `"+gd+"`")
						}
					}
				}
			}
			return true
		})
	}
	// the class loop starts its rune loop at 0
	ast.Inspect(fd.Body, func(n ast.Node) bool {
		if f, ok := n.(*ast.ForStmt); ok && f.Init != nil && f.Cond != nil && nospace(f.Cond) == "r<128" {
			if as, ok := f.Init.(*ast.AssignStmt); ok && nospace(as.Rhs[0]) != "rune(0)" && nospace(as.Rhs[0]) != "0" {
				bad = append(bad, g.Where(f.Pos())+": rune loop over the class starts at "+nospace(as.Rhs[0]))
			}
		}
		return true
	})
	sort.Strings(bad)
	r.Check(len(bad) == 0 && nStores >= 6, rule, "G.builder.BasicLatinLookup:decides-all-128-runes-by-membership-only", "", g.Where(fd.Pos()),
		fmt.Sprintf("%d table stores, guarded only by range/case/membership tests; no skipping", nStores), strings.Join(bad, "; ")+": the general path tests every class with unicode.Is for every rune, so the table may not skip any")
}

// basicLatinSiblingForms: two exact agreements between the table computation and the general path.
// (1) ranges are inclusive at both ends on both sides; (2) a Unicode class decides rune r by
// unicode.Is(rangeTable(class), fold(r)) with fold = unicode.ToLower exactly under ignoreCase - the same fold the
// general path applies, exactly under its ignoreCase flag, before it tests any member source.
func basicLatinSiblingForms(c *Ctx, rule string) {
	r := c.R
	g := c.G()
	if g == nil {
		return
	}
	fd := load.FuncDecl(g.Pkg("builder"), "", "BasicLatinLookup")
	if fd == nil {
		return
	}
	var params []string
	for _, f := range fd.Type.Params.List {
		for _, n := range f.Names {
			params = append(params, n.Name)
		}
	}
	if len(params) != 4 {
		return
	}
	rangesP, classesP, ic := params[1], params[2], params[3]
	// ---- general path (every semantic variant): fold and range test
	type general struct{ loIncl, hiIncl, ok bool }
	var gen *general
	for _, v := range c.SemanticVariants() {
		pf := v.Func("parser", "parseCharClassMatcher")
		if pf == nil {
			continue
		}
		param := pf.Type.Params.List[0].Names[0].Name
		var bad []string
		// fold: `cur = unicode.ToLower(cur)` under exactly <param>.ignoreCase, before the first member loop
		var foldPos, firstLoop token.Pos
		ast.Inspect(pf.Body, func(n ast.Node) bool {
			switch x := n.(type) {
			case *ast.AssignStmt:
				if len(x.Lhs) == 1 && nospace(x.Lhs[0]) == "cur" && nospace(x.Rhs[0]) == "unicode.ToLower(cur)" {
					foldPos = x.Pos()
					if gs := guardsOf(pf.Body, x.Pos()); len(gs) != 1 || gs[0] != param+".ignoreCase" {
						bad = append(bad, v.Where(x.Pos())+": the input rune is folded under ["+strings.Join(gs, ";")+"], expected exactly "+param+".ignoreCase: the table is computed for fold-then-test on all three member sources")
					}
				}
			case *ast.RangeStmt:
				if !firstLoop.IsValid() && strings.HasPrefix(nospace(x.X), param+".") {
					firstLoop = x.Pos()
				}
			case *ast.ForStmt:
				if !firstLoop.IsValid() && x.Cond != nil && strings.Contains(nospace(x.Cond), param+".ranges") {
					firstLoop = x.Pos()
				}
			}
			return true
		})
		if !foldPos.IsValid() {
			bad = append(bad, "the general path never folds the input rune (cur = unicode.ToLower(cur))")
		} else if firstLoop.IsValid() && foldPos > firstLoop {
			bad = append(bad, "the input rune is folded after a member source was already tested")
		}
		// range test
		cur := general{}
		ast.Inspect(pf.Body, func(n ast.Node) bool {
			be, ok := n.(*ast.BinaryExpr)
			if !ok || be.Op != token.LAND {
				return true
			}
			l, rr := nospace(be.X), nospace(be.Y)
			if strings.HasPrefix(l, "cur>") && strings.Contains(l, param+".ranges[i]") && strings.HasPrefix(rr, "cur<") && strings.Contains(rr, param+".ranges[i+1]") {
				cur.ok = true
				cur.loIncl = strings.HasPrefix(l, "cur>=")
				cur.hiIncl = strings.HasPrefix(rr, "cur<=")
			}
			return true
		})
		if !cur.ok {
			bad = append(bad, "range test `cur >= ranges[i] && cur <= ranges[i+1]` not found")
		} else if gen == nil {
			gg := cur
			gen = &gg
		} else if *gen != cur {
			bad = append(bad, "range test differs between variants")
		}
		r.Check(len(bad) == 0, rule, "T.parseCharClassMatcher:general-path-fold-and-range-test", v.Name, v.Where(pf.Pos()), "folds under ignoreCase only, before all member tests; inclusive range test", strings.Join(bad, "; "))
	}
	// ---- (1) range loop of the table
	var rangeLoop *ast.ForStmt
	var classLoop *ast.RangeStmt
	for _, st := range fd.Body.List {
		switch x := st.(type) {
		case *ast.ForStmt:
			if x.Cond != nil && strings.Contains(nospace(x.Cond), "len("+rangesP+")") {
				rangeLoop = x
			}
		case *ast.RangeStmt:
			if nospace(x.X) == classesP {
				classLoop = x
			}
		}
	}
	if rangeLoop == nil || gen == nil {
		r.Unk(rule, "G.builder.BasicLatinLookup:range-bounds-as-general-path", "", g.Where(fd.Pos()), "range loop or general range test not found")
	} else {
		var inner *ast.ForStmt
		ast.Inspect(rangeLoop.Body, func(n ast.Node) bool {
			if f, ok := n.(*ast.ForStmt); ok && inner == nil {
				inner = f
			}
			return true
		})
		okB := false
		detail := "no inner rune loop"
		if inner != nil && inner.Init != nil && inner.Cond != nil {
			init, cond := "", nospace(inner.Cond)
			if as, ok := inner.Init.(*ast.AssignStmt); ok {
				init = nospace(as.Rhs[0])
			}
			jv := ""
			if as, ok := inner.Init.(*ast.AssignStmt); ok {
				jv = nospace(as.Lhs[0])
			}
			loIncl := init == rangesP+"[i]"
			hiIncl := strings.Contains(cond, jv+"<="+rangesP+"[i+1]")
			hiExcl := strings.Contains(cond, jv+"<"+rangesP+"[i+1]")
			post := ""
			if ids, ok := inner.Post.(*ast.IncDecStmt); ok {
				post = nospace(ids.X) + ids.Tok.String()
			}
			okB = loIncl == gen.loIncl && (hiIncl || hiExcl) && hiIncl == gen.hiIncl && post == jv+"++"
			detail = fmt.Sprintf("the table enumerates runes from %s while `%s` (step %s); the general path tests the range with lower bound inclusive=%t, upper bound inclusive=%t: the end points of a range are decided differently", init, cond, post, gen.loIncl, gen.hiIncl)
		}
		r.Check(okB, rule, "G.builder.BasicLatinLookup:range-bounds-as-general-path", "", g.Where(rangeLoop.Pos()), "both ends inclusive on both sides", detail)
	}
	// ---- (2) class loop of the table
	if classLoop == nil || classLoop.Value == nil {
		r.Unk(rule, "G.builder.BasicLatinLookup:class-decision-as-general-path", "", g.Where(fd.Pos()), "class loop not found")
		return
	}
	cl := nospace(classLoop.Value)
	var bad []string
	rt := ""
	var inner *ast.ForStmt
	for _, st := range classLoop.Body.List {
		switch x := st.(type) {
		case *ast.AssignStmt:
			if len(x.Rhs) == 1 && nospace(x.Rhs[0]) == "rangeTable("+cl+")" {
				rt = nospace(x.Lhs[0])
			}
		case *ast.ForStmt:
			inner = x
		}
	}
	if rt == "" {
		bad = append(bad, "the class is not resolved with rangeTable("+cl+")")
	}
	if inner == nil {
		bad = append(bad, "no rune loop")
	} else {
		rv := ""
		if as, ok := inner.Init.(*ast.AssignStmt); ok {
			rv = nospace(as.Lhs[0])
		}
		// reaching definitions of the tested rune
		stores := 0
		ast.Inspect(inner.Body, func(n ast.Node) bool {
			as, ok := n.(*ast.AssignStmt)
			if !ok {
				return true
			}
			ix, ok := as.Lhs[0].(*ast.IndexExpr)
			if !ok || !strings.HasSuffix(nospace(ix.X), "basicLatinChars") {
				return true
			}
			stores++
			if nospace(ix.Index) != rv {
				bad = append(bad, g.Where(as.Pos())+": stores the decision of rune "+rv+" at index "+nospace(ix.Index))
			}
			if nospace(as.Rhs[0]) != "true" {
				bad = append(bad, g.Where(as.Pos())+": stores "+nospace(as.Rhs[0])+" for a member")
			}
			gs := guardsOf(inner.Body, as.Pos())
			if len(gs) != 1 || !strings.HasPrefix(gs[0], "unicode.Is("+rt+",") {
				bad = append(bad, g.Where(as.Pos())+": membership is decided by ["+strings.Join(gs, ";")+"], expected exactly unicode.Is("+rt+", <folded rune>)")
				return true
			}
			tested := strings.TrimSuffix(strings.TrimPrefix(gs[0], "unicode.Is("+rt+","), ")")
			// tested must be a local defined as rv and re-assigned unicode.ToLower(rv) exactly under ic
			var defs []string
			ast.Inspect(inner.Body, func(m ast.Node) bool {
				if a2, ok := m.(*ast.AssignStmt); ok && len(a2.Lhs) == 1 && nospace(a2.Lhs[0]) == tested && a2.Pos() < as.Pos() {
					defs = append(defs, nospace(a2.Rhs[0])+"["+strings.Join(guardsOf(inner.Body, a2.Pos()), ";")+"]")
				}
				return true
			})
			sort.Strings(defs)
			if got := strings.Join(defs, " "); got != rv+"[] unicode.ToLower("+rv+")["+ic+"]" {
				bad = append(bad, g.Where(as.Pos())+": the tested rune "+tested+" is defined as {"+got+"}, expected "+rv+" and, exactly under "+ic+", unicode.ToLower("+rv+") - the fold of the general path")
			}
			return true
		})
		if stores != 1 {
			bad = append(bad, fmt.Sprintf("%d table stores in the class loop, expected 1", stores))
		}
	}
	sort.Strings(bad)
	r.Check(len(bad) == 0, rule, "G.builder.BasicLatinLookup:class-decision-as-general-path", "", g.Where(classLoop.Pos()), "table[r] = unicode.Is(rangeTable(class), ignoreCase ? ToLower(r) : r), as the general path", strings.Join(bad, "; "))
}
