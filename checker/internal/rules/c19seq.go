package rules

import (
	"fmt"
	"go/ast"
	"go/types"
	"sort"
	"strings"

	"golang.org/x/tools/go/packages"

	"pigeonverif/internal/load"
)

// Order-tainted sequences. Some tabled map ranges of C19-a are accepted with the argument "the *set* of results does
// not depend on the visiting order, only the order of the returned list does" (Tarjan's partition, the exhaustive
// cycle enumeration). That argument is complete only if every loop over such a list treats its elements
// independently of each other. This file finds the functions that return such a list (a slice appended to under a
// map range, directly or in a closure, and not sorted before it is returned), finds every `range` over a value that
// comes from a call of one of them, and demands for the body of that loop what C19-a demands of a map range: an
// automatic order-insensitive class, or a tabled argument whose recorded effect signature still covers the body.

// seqReasons: the loops over order-tainted lists that need an argument. Key: "<pkg>.<func>:rangeseq(<source>)#<n>".
var seqReasons = map[string]struct{ reason, effects string }{
	"builder.ComputeLeftRecursives:rangeseq(StronglyConnectedComponents)#1": {
		"every component is handled on its own: the flags are constants stored into the rules of this component, the leader is computed by findLeader from the graph and this component only, and nothing an iteration stores is read by another one (the components are disjoint; the running flag is a monotone boolean)",
		"calls=findLeader,fmt.Errorf writes=<bool>,<map[string]*Rule>[<string>].Leader,<map[string]*Rule>[<string>].LeftRecursive"},
	"builder.findLeader:rangeseq(FindCyclesInSCC)#1": {
		"the candidate set is intersected with every cycle: deletes only, which commute",
		"calls=delete"},
}

type seqSite struct {
	Key    string
	Source string
	Stmt   *ast.RangeStmt
	Pkg    *packages.Package
	Fn     *ast.FuncDecl
}

// orderTaintedFuncs: package-level functions with a slice result that is appended to inside a map range of the
// function (closures included) and not sorted afterwards.
func orderTaintedFuncs(p *packages.Package) map[string]bool {
	out := map[string]bool{}
	info := p.TypesInfo
	for _, fd := range load.AllFuncDecls(p) {
		if fd.Body == nil || fd.Recv != nil || fd.Type.Results == nil {
			continue
		}
		hasSlice := false
		for _, f := range fd.Type.Results.List {
			if t := info.TypeOf(f.Type); t != nil {
				if _, ok := t.Underlying().(*types.Slice); ok {
					hasSlice = true
				}
			}
		}
		if !hasSlice {
			continue
		}
		// value flow inside the function, closures included, to a fixpoint: a slice variable is tainted when it is
		// appended to under a map range, or when something tainted (a tainted variable, the result of a closure that
		// returns something tainted) is appended or assigned to it; a closure variable is tainted when its literal
		// returns something tainted
		tainted := map[types.Object]bool{}
		closures := map[types.Object]*ast.FuncLit{}
		objOf := func(id *ast.Ident) types.Object {
			if o := info.Uses[id]; o != nil {
				return o
			}
			return info.Defs[id]
		}
		ast.Inspect(fd.Body, func(m ast.Node) bool {
			if as, ok := m.(*ast.AssignStmt); ok && len(as.Lhs) == 1 && len(as.Rhs) == 1 {
				if fl, ok := as.Rhs[0].(*ast.FuncLit); ok {
					if id, ok := as.Lhs[0].(*ast.Ident); ok {
						if o := objOf(id); o != nil {
							closures[o] = fl
						}
					}
				}
			}
			return true
		})
		var mentionsTainted func(e ast.Expr) bool
		mentionsTainted = func(e ast.Expr) bool {
			found := false
			ast.Inspect(e, func(m ast.Node) bool {
				if id, ok := m.(*ast.Ident); ok {
					if o := info.Uses[id]; o != nil && tainted[o] {
						found = true
					}
				}
				return !found
			})
			return found
		}
		type asg struct {
			lhs   types.Object
			rhs   ast.Expr
			under bool
		}
		var asgs []asg
		var collect func(n ast.Node, under bool)
		collect = func(n ast.Node, under bool) {
			ast.Inspect(n, func(m ast.Node) bool {
				if m == nil || m == n {
					return true
				}
				switch x := m.(type) {
				case *ast.RangeStmt:
					if t := info.TypeOf(x.X); t != nil {
						if _, ok := t.Underlying().(*types.Map); ok {
							collect(x.Body, true)
							return false
						}
					}
				case *ast.AssignStmt:
					for i, l := range x.Lhs {
						id, ok := l.(*ast.Ident)
						if !ok || i >= len(x.Rhs) {
							continue
						}
						o := objOf(id)
						if o == nil {
							continue
						}
						if _, ok := o.Type().Underlying().(*types.Slice); !ok {
							continue
						}
						asgs = append(asgs, asg{o, x.Rhs[i], under})
					}
				}
				return true
			})
		}
		collect(fd.Body, false)
		for changed := true; changed; {
			changed = false
			for _, a := range asgs {
				if tainted[a.lhs] {
					continue
				}
				isAppend := false
				if ce, ok := a.rhs.(*ast.CallExpr); ok && callName(ce) == "append" {
					isAppend = true
				}
				if (a.under && isAppend) || mentionsTainted(a.rhs) {
					tainted[a.lhs] = true
					changed = true
				}
			}
			for o, fl := range closures {
				if tainted[o] {
					continue
				}
				ast.Inspect(fl.Body, func(m ast.Node) bool {
					if rs, ok := m.(*ast.ReturnStmt); ok {
						for _, e := range rs.Results {
							if mentionsTainted(e) {
								tainted[o] = true
								changed = true
							}
						}
					}
					return true
				})
			}
		}
		// sorted before returning?
		sorted := map[types.Object]bool{}
		ast.Inspect(fd.Body, func(m ast.Node) bool {
			if ce, ok := m.(*ast.CallExpr); ok {
				cn := callName(ce)
				if strings.HasPrefix(cn, "sort.") || strings.HasPrefix(cn, "slices.Sort") {
					for _, a := range ce.Args {
						if id, ok := a.(*ast.Ident); ok {
							if obj := info.Uses[id]; obj != nil {
								sorted[obj] = true
							}
						}
					}
				}
			}
			return true
		})
		returned := false
		ast.Inspect(fd.Body, func(m ast.Node) bool {
			if _, ok := m.(*ast.FuncLit); ok {
				return false
			}
			if rs, ok := m.(*ast.ReturnStmt); ok {
				for _, e := range rs.Results {
					if t := info.TypeOf(e); t != nil {
						if _, ok := t.Underlying().(*types.Slice); !ok {
							continue
						}
					}
					if id, ok := e.(*ast.Ident); ok {
						if obj := info.Uses[id]; obj != nil && sorted[obj] {
							continue
						}
					}
					if mentionsTainted(e) {
						returned = true
					}
				}
			}
			return true
		})
		if returned {
			out[fd.Name.Name] = true
		}
	}
	return out
}

// seqSites: every range whose operand is a call of an order-tainted function of the same package, or a local whose
// definition is such a call.
func seqSites(p *packages.Package, taintedFns map[string]bool, skip func(*ast.FuncDecl) bool) []seqSite {
	var out []seqSite
	info := p.TypesInfo
	for _, fd := range load.AllFuncDecls(p) {
		if fd.Body == nil || (skip != nil && skip(fd)) {
			continue
		}
		// locals defined from a tainted call
		src := map[types.Object]string{}
		ast.Inspect(fd.Body, func(m ast.Node) bool {
			as, ok := m.(*ast.AssignStmt)
			if !ok || len(as.Rhs) != 1 {
				return true
			}
			ce, ok := as.Rhs[0].(*ast.CallExpr)
			if !ok {
				return true
			}
			id, ok := ce.Fun.(*ast.Ident)
			if !ok || !taintedFns[id.Name] {
				return true
			}
			for _, l := range as.Lhs {
				if li, ok := l.(*ast.Ident); ok {
					obj := info.Defs[li]
					if obj == nil {
						obj = info.Uses[li]
					}
					if obj != nil {
						if _, ok := obj.Type().Underlying().(*types.Slice); ok {
							src[obj] = id.Name
						}
					}
				}
			}
			return true
		})
		count := map[string]int{}
		ast.Inspect(fd.Body, func(m ast.Node) bool {
			rs, ok := m.(*ast.RangeStmt)
			if !ok {
				return true
			}
			source := ""
			switch x := rs.X.(type) {
			case *ast.CallExpr:
				if id, ok := x.Fun.(*ast.Ident); ok && taintedFns[id.Name] {
					source = id.Name
				}
			case *ast.Ident:
				if obj := info.Uses[x]; obj != nil {
					source = src[obj]
				}
			}
			if source == "" {
				return true
			}
			count[source]++
			out = append(out, seqSite{Key: fmt.Sprintf("%s.%s:rangeseq(%s)#%d", p.Types.Name(), fd.Name.Name, source, count[source]), Source: source, Stmt: rs, Pkg: p, Fn: fd})
			return true
		})
	}
	return out
}

// c19Sequences is rule C19-d.
func c19Sequences(c *Ctx) {
	r := c.R
	g := c.G()
	if g == nil {
		return
	}
	isGen := func(fn string) bool { return strings.HasSuffix(fn, "/pigeon.go") || strings.HasSuffix(fn, "_test.go") }
	nSites, nFns := 0, 0
	var fnNames []string
	for _, sfx := range []string{"", "ast", "builder"} {
		p := g.Pkg(sfx)
		tf := orderTaintedFuncs(p)
		for k := range tf {
			fnNames = append(fnNames, p.Types.Name()+"."+k)
		}
		nFns += len(tf)
		sites := seqSites(p, tf, func(fd *ast.FuncDecl) bool { return isGen(g.Fset.Position(fd.Pos()).Filename) })
		for _, s := range sites {
			nSites++
			construct := "G." + s.Key
			sig := effectSignature(s.Pkg, s.Stmt.Body)
			// state handed to a callee that modifies it is state of the loop: the argument must be fresh in every
			// iteration (defined in the body) or the element itself
			if carried := carriedThroughCallee(s); len(carried) > 0 {
				r.Bad("C19-d", construct, "", g.Where(s.Stmt.Pos()), "the list returned by "+s.Source+" is in map-iteration order and the loop over it hands "+strings.Join(carried, ", ")+", which lives across iterations: what one iteration stores there is read by the next")
				continue
			}
			if rs, ok := seqReasons[s.Key]; ok {
				if effectsCovered(rs.effects, sig) {
					r.Ok("C19-d", construct, "", g.Where(s.Stmt.Pos()), "tabled: "+rs.reason)
				} else {
					r.Bad("C19-d", construct, "", g.Where(s.Stmt.Pos()), "the list returned by "+s.Source+" is in map-iteration order; this loop over it was argued order-insensitive for the effects ["+rs.effects+"] but its body now has ["+sig+"]: what one iteration stores may be read by a later one")
				}
				continue
			}
			// a loop matched by signature under another ordinal / name
			matched := false
			for _, cand := range seqReasons {
				if cand.effects == sig && sig != "" {
					r.Ok("C19-d", construct, "", g.Where(s.Stmt.Pos()), "tabled (matched by effects): "+cand.reason)
					matched = true
					break
				}
			}
			if matched {
				continue
			}
			class, why := classifyRange(s.Pkg, rangeSite{Key: s.Key, Pos: s.Stmt.Pos(), Stmt: s.Stmt, Pkg: s.Pkg, Fn: s.Fn.Name.Name, Outer: s.Fn})
			if class != "" {
				r.Ok("C19-d", construct, "", g.Where(s.Stmt.Pos()), "class: "+class)
			} else {
				r.Bad("C19-d", construct, "", g.Where(s.Stmt.Pos()), "loop over the list returned by "+s.Source+", whose order follows map iteration, is order-sensitive or unclassified: "+why+"; effects ["+sig+"]")
			}
		}
	}
	sort.Strings(fnNames)
	r.Analysed["order_tainted_list_functions"] = fnNames
	r.Analysed["loops_over_order_tainted_lists"] = nSites
	r.Min("functions returning a list in map-iteration order", 2, nFns)
	r.Min("loops over order-tainted lists", 2, nSites)
}

// mutatedParams: the indices of the parameters of a package-level function through which it modifies its argument
// (a store into an element or field, delete, clear, maps.Copy into it, or handing it on to a function that does).
func mutatedParams(p *packages.Package, fd *ast.FuncDecl, depth int) map[int]bool {
	out := map[int]bool{}
	if fd == nil || fd.Body == nil || depth > 3 {
		return out
	}
	info := p.TypesInfo
	idx := map[types.Object]int{}
	k := 0
	for _, f := range fd.Type.Params.List {
		for _, n := range f.Names {
			if o := info.Defs[n]; o != nil {
				idx[o] = k
			}
			k++
		}
		if len(f.Names) == 0 {
			k++
		}
	}
	base := func(e ast.Expr) types.Object {
		for {
			switch x := e.(type) {
			case *ast.IndexExpr:
				e = x.X
			case *ast.SelectorExpr:
				e = x.X
			case *ast.StarExpr:
				e = x.X
			case *ast.ParenExpr:
				e = x.X
			case *ast.Ident:
				return info.Uses[x]
			default:
				return nil
			}
		}
	}
	mark := func(e ast.Expr, needDeref bool) {
		if _, isIdent := e.(*ast.Ident); isIdent && needDeref {
			return // plain reassignment of the parameter itself is local
		}
		if o := base(e); o != nil {
			if i, ok := idx[o]; ok {
				out[i] = true
			}
		}
	}
	ast.Inspect(fd.Body, func(m ast.Node) bool {
		switch x := m.(type) {
		case *ast.AssignStmt:
			for _, l := range x.Lhs {
				mark(l, true)
			}
		case *ast.IncDecStmt:
			mark(x.X, true)
		case *ast.CallExpr:
			cn := callName(x)
			switch cn {
			case "delete", "clear", "maps.Copy", "maps.DeleteFunc":
				if len(x.Args) > 0 {
					mark(x.Args[0], false)
				}
			default:
				if id, ok := x.Fun.(*ast.Ident); ok {
					var callee *ast.FuncDecl
					for _, d := range load.AllFuncDecls(p) {
						if d.Recv == nil && d.Name.Name == id.Name && d != fd {
							callee = d
						}
					}
					if callee != nil {
						for i := range mutatedParams(p, callee, depth+1) {
							if i < len(x.Args) {
								mark(x.Args[i], false)
							}
						}
					}
				}
			}
		}
		return true
	})
	return out
}

// carriedThroughCallee: arguments of calls in the loop body that the callee modifies and that are neither defined in
// the body nor the loop's own element.
func carriedThroughCallee(s seqSite) []string {
	info := s.Pkg.TypesInfo
	var out []string
	body := s.Stmt.Body
	ast.Inspect(body, func(m ast.Node) bool {
		ce, ok := m.(*ast.CallExpr)
		if !ok {
			return true
		}
		id, ok := ce.Fun.(*ast.Ident)
		if !ok {
			return true
		}
		var callee *ast.FuncDecl
		for _, d := range load.AllFuncDecls(s.Pkg) {
			if d.Recv == nil && d.Name.Name == id.Name {
				callee = d
			}
		}
		if callee == nil {
			return true
		}
		for i := range mutatedParams(s.Pkg, callee, 0) {
			if i >= len(ce.Args) {
				continue
			}
			a := ce.Args[i]
			var o types.Object
			if ai, ok := a.(*ast.Ident); ok {
				o = info.Uses[ai]
			}
			fresh := false
			if o != nil && o.Pos() >= s.Stmt.Pos() && o.Pos() < body.End() {
				fresh = true // defined by the range clause or inside the body
			}
			if _, isCall := a.(*ast.CallExpr); isCall {
				fresh = true
			}
			if !fresh {
				out = append(out, fmt.Sprintf("`%s` to %s (parameter %d, which %s modifies)", nospace(a), id.Name, i+1, id.Name))
			}
		}
		return true
	})
	sort.Strings(out)
	return out
}

// sccSelfLoops (C08-g / C07-h): a strongly connected component with one vertex contains a cycle exactly when that
// vertex has an edge to itself. Every loop over the components returned by StronglyConnectedComponents that treats
// components by their size (a test of len(component) against 1 or 2) must therefore also look at the self-loop of a
// single vertex - an index expression m[v][v] with the same key twice - before it takes such a component for
// cycle-free. ComputeLeftRecursives does (a directly left-recursive rule is its own group); a consumer that does not
// misses direct recursion.
func sccSelfLoops(c *Ctx, rule string) {
	r := c.R
	g := c.G()
	if g == nil {
		return
	}
	n := 0
	for _, sfx := range []string{"", "ast", "builder"} {
		p := g.Pkg(sfx)
		info := p.TypesInfo
		tf := map[string]bool{}
		for name := range orderTaintedFuncs(p) {
			// the component search: returns a list of sets
			for _, fd := range load.AllFuncDecls(p) {
				if fd.Recv == nil && fd.Name.Name == name && fd.Type.Results != nil && len(fd.Type.Results.List) == 1 {
					if t := info.TypeOf(fd.Type.Results.List[0].Type); t != nil {
						if sl, ok := t.Underlying().(*types.Slice); ok {
							if _, ok := sl.Elem().Underlying().(*types.Map); ok {
								tf[name] = true
							}
						}
					}
				}
			}
		}
		for _, s := range seqSites(p, tf, func(fd *ast.FuncDecl) bool {
			fn := g.Fset.Position(fd.Pos()).Filename
			return strings.HasSuffix(fn, "_test.go")
		}) {
			elem, ok := s.Stmt.Value.(*ast.Ident)
			if !ok {
				continue
			}
			elemObj := info.Defs[elem]
			bySize, selfLoop := false, false
			ast.Inspect(s.Stmt.Body, func(m ast.Node) bool {
				switch x := m.(type) {
				case *ast.BinaryExpr:
					for _, side := range []ast.Expr{x.X, x.Y} {
						if ce, ok := side.(*ast.CallExpr); ok && callName(ce) == "len" && len(ce.Args) == 1 {
							if id, ok := ce.Args[0].(*ast.Ident); ok && info.Uses[id] == elemObj {
								bySize = true
							}
						}
					}
				case *ast.IndexExpr:
					if in, ok := x.X.(*ast.IndexExpr); ok && nospace(in.Index) == nospace(x.Index) {
						selfLoop = true
					}
				}
				return true
			})
			// the self-loop test may sit in a helper that receives the component
			if bySize && !selfLoop {
				ast.Inspect(s.Stmt.Body, func(m ast.Node) bool {
					ce, ok := m.(*ast.CallExpr)
					if !ok {
						return true
					}
					id, ok := ce.Fun.(*ast.Ident)
					if !ok {
						return true
					}
					for _, d := range load.AllFuncDecls(p) {
						if d.Recv == nil && d.Name.Name == id.Name && d.Body != nil {
							ast.Inspect(d.Body, func(k ast.Node) bool {
								if x, ok := k.(*ast.IndexExpr); ok {
									if in, ok := x.X.(*ast.IndexExpr); ok && nospace(in.Index) == nospace(x.Index) {
										selfLoop = true
									}
								}
								return true
							})
						}
					}
					return true
				})
			}
			n++
			construct := "G." + strings.Replace(s.Key, "rangeseq", "components", 1)
			switch {
			case !bySize:
				r.Ok(rule, construct, "", g.Where(s.Stmt.Pos()), "the loop does not distinguish components by size")
			case selfLoop:
				r.Ok(rule, construct, "", g.Where(s.Stmt.Pos()), "components are told apart by size and the self-loop of a single vertex is consulted")
			default:
				r.Bad(rule, construct, "", g.Where(s.Stmt.Pos()), "the loop over the components of "+s.Source+" decides by len("+elem.Name+") alone: a component with one vertex still contains a cycle when the vertex has an edge to itself (a directly left-recursive rule), and nothing here looks at graph[v][v]")
			}
		}
	}
	r.Min("loops over strongly connected components", 1, n)
}
