package rules

import (
	"fmt"
	"go/ast"
	"go/token"
	"go/types"
	"sort"
	"strings"

	"golang.org/x/tools/go/packages"

	"pigeonverif/internal/load"
)

// Order-tainted sequences. Some tabled map ranges of C19-a are accepted with the argument "the *set* of results does
// not depend on the visiting order, only the order of the returned list does" (Tarjan's partition, the exhaustive
// cycle enumeration). That argument is complete only if every loop over such a list treats its elements
// independently of each other. This file finds the functions that return such a list (a slice appended to under a
// map range, directly or in a closure, and not sorted before it is returned), finds every `range` over a value that
// comes from a call of one of them, and demands for the body of that loop what C19-a demands of a map range: an
// automatic order-insensitive class, or a tabled argument whose recorded effect signature still covers the body.

// seqReasons: the loops over order-tainted lists that need an argument. Key: "<pkg>.<func>:rangeseq(<source>)#<n>".
var seqReasons = map[string]struct{ reason, effects string }{
	"builder.ComputeLeftRecursives:rangeseq(StronglyConnectedComponents)#1": {
		"every component is handled on its own: the flags are constants stored into the rules of this component, the leader is computed by findLeader from the graph and this component only, and nothing an iteration stores is read by another one (the components are disjoint; the running flag is a monotone boolean)",
		"calls=findLeader,fmt.Errorf writes=<bool>,<map[string]*Rule>[<string>].Leader,<map[string]*Rule>[<string>].LeftRecursive"},
	"builder.findLeader:rangeseq(FindCyclesInSCC)#1": {
		"the candidate set is intersected with every cycle: deletes only, which commute",
		"calls=delete"},
}

type seqSite struct {
	Key    string
	Source string
	Stmt   *ast.RangeStmt
	Pkg    *packages.Package
	Fn     *ast.FuncDecl
}

// orderTaintedFuncs: package-level functions with a slice result that is appended to inside a map range of the
// function (closures included) and not sorted afterwards.
func orderTaintedFuncs(p *packages.Package) map[string]bool {
	out := map[string]bool{}
	info := p.TypesInfo
	for _, fd := range load.AllFuncDecls(p) {
		if fd.Body == nil || fd.Recv != nil || fd.Type.Results == nil {
			continue
		}
		hasSlice := false
		for _, f := range fd.Type.Results.List {
			if t := info.TypeOf(f.Type); t != nil {
				if _, ok := t.Underlying().(*types.Slice); ok {
					hasSlice = true
				}
			}
		}
		if !hasSlice {
			continue
		}
		// value flow inside the function, closures included, to a fixpoint: a slice variable is tainted when it is
		// appended to under a map range, or when something tainted (a tainted variable, the result of a closure that
		// returns something tainted) is appended or assigned to it; a closure variable is tainted when its literal
		// returns something tainted
		tainted := map[types.Object]bool{}
		closures := map[types.Object]*ast.FuncLit{}
		objOf := func(id *ast.Ident) types.Object {
			if o := info.Uses[id]; o != nil {
				return o
			}
			return info.Defs[id]
		}
		ast.Inspect(fd.Body, func(m ast.Node) bool {
			if as, ok := m.(*ast.AssignStmt); ok && len(as.Lhs) == 1 && len(as.Rhs) == 1 {
				if fl, ok := as.Rhs[0].(*ast.FuncLit); ok {
					if id, ok := as.Lhs[0].(*ast.Ident); ok {
						if o := objOf(id); o != nil {
							closures[o] = fl
						}
					}
				}
			}
			return true
		})
		var mentionsTainted func(e ast.Expr) bool
		mentionsTainted = func(e ast.Expr) bool {
			found := false
			ast.Inspect(e, func(m ast.Node) bool {
				if id, ok := m.(*ast.Ident); ok {
					if o := info.Uses[id]; o != nil && tainted[o] {
						found = true
					}
				}
				return !found
			})
			return found
		}
		type asg struct {
			lhs   types.Object
			rhs   ast.Expr
			under bool
		}
		var asgs []asg
		var collect func(n ast.Node, under bool)
		collect = func(n ast.Node, under bool) {
			ast.Inspect(n, func(m ast.Node) bool {
				if m == nil || m == n {
					return true
				}
				switch x := m.(type) {
				case *ast.FuncLit:
					// a closure that ranges over a map (and calls itself from there) runs all of its body in the order
					// of that map: what it appends anywhere in its body arrives in map-iteration order
					mapRange := false
					ast.Inspect(x.Body, func(k ast.Node) bool {
						if rs, ok := k.(*ast.RangeStmt); ok {
							if t := info.TypeOf(rs.X); t != nil {
								if _, ok := t.Underlying().(*types.Map); ok {
									mapRange = true
								}
							}
						}
						return !mapRange
					})
					if mapRange && !under {
						collect(x.Body, true)
						return false
					}
				case *ast.RangeStmt:
					if t := info.TypeOf(x.X); t != nil {
						if _, ok := t.Underlying().(*types.Map); ok {
							collect(x.Body, true)
							return false
						}
					}
				case *ast.AssignStmt:
					for i, l := range x.Lhs {
						id, ok := l.(*ast.Ident)
						if !ok || i >= len(x.Rhs) {
							continue
						}
						o := objOf(id)
						if o == nil {
							continue
						}
						if _, ok := o.Type().Underlying().(*types.Slice); !ok {
							continue
						}
						asgs = append(asgs, asg{o, x.Rhs[i], under})
					}
				}
				return true
			})
		}
		collect(fd.Body, false)
		for changed := true; changed; {
			changed = false
			for _, a := range asgs {
				if tainted[a.lhs] {
					continue
				}
				isAppend := false
				if ce, ok := a.rhs.(*ast.CallExpr); ok && callName(ce) == "append" {
					isAppend = true
				}
				if (a.under && isAppend) || mentionsTainted(a.rhs) {
					tainted[a.lhs] = true
					changed = true
				}
			}
			for o, fl := range closures {
				if tainted[o] {
					continue
				}
				ast.Inspect(fl.Body, func(m ast.Node) bool {
					if rs, ok := m.(*ast.ReturnStmt); ok {
						for _, e := range rs.Results {
							if mentionsTainted(e) {
								tainted[o] = true
								changed = true
							}
						}
					}
					return true
				})
			}
		}
		// sorted before returning?
		sorted := map[types.Object]bool{}
		ast.Inspect(fd.Body, func(m ast.Node) bool {
			if ce, ok := m.(*ast.CallExpr); ok {
				cn := callName(ce)
				if strings.HasPrefix(cn, "sort.") || strings.HasPrefix(cn, "slices.Sort") {
					for _, a := range ce.Args {
						if id, ok := a.(*ast.Ident); ok {
							if obj := info.Uses[id]; obj != nil {
								sorted[obj] = true
							}
						}
					}
				}
			}
			return true
		})
		returned := false
		ast.Inspect(fd.Body, func(m ast.Node) bool {
			if _, ok := m.(*ast.FuncLit); ok {
				return false
			}
			if rs, ok := m.(*ast.ReturnStmt); ok {
				for _, e := range rs.Results {
					if t := info.TypeOf(e); t != nil {
						if _, ok := t.Underlying().(*types.Slice); !ok {
							continue
						}
					}
					if id, ok := e.(*ast.Ident); ok {
						if obj := info.Uses[id]; obj != nil && sorted[obj] {
							continue
						}
					}
					if mentionsTainted(e) {
						returned = true
					}
				}
			}
			return true
		})
		if returned {
			out[fd.Name.Name] = true
		}
	}
	return out
}

// seqSites: every range whose operand is a call of an order-tainted function of the same package, or a local whose
// definition is such a call.
func seqSites(p *packages.Package, taintedFns map[string]bool, skip func(*ast.FuncDecl) bool) []seqSite {
	var out []seqSite
	info := p.TypesInfo
	for _, fd := range load.AllFuncDecls(p) {
		if fd.Body == nil || (skip != nil && skip(fd)) {
			continue
		}
		// locals defined from a tainted call
		src := map[types.Object]string{}
		ast.Inspect(fd.Body, func(m ast.Node) bool {
			as, ok := m.(*ast.AssignStmt)
			if !ok || len(as.Rhs) != 1 {
				return true
			}
			ce, ok := as.Rhs[0].(*ast.CallExpr)
			if !ok {
				return true
			}
			id, ok := ce.Fun.(*ast.Ident)
			if !ok || !taintedFns[id.Name] {
				return true
			}
			for _, l := range as.Lhs {
				if li, ok := l.(*ast.Ident); ok {
					obj := info.Defs[li]
					if obj == nil {
						obj = info.Uses[li]
					}
					if obj != nil {
						if _, ok := obj.Type().Underlying().(*types.Slice); ok {
							src[obj] = id.Name
						}
					}
				}
			}
			return true
		})
		count := map[string]int{}
		ast.Inspect(fd.Body, func(m ast.Node) bool {
			rs, ok := m.(*ast.RangeStmt)
			if !ok {
				return true
			}
			source := ""
			switch x := rs.X.(type) {
			case *ast.CallExpr:
				if id, ok := x.Fun.(*ast.Ident); ok && taintedFns[id.Name] {
					source = id.Name
				}
			case *ast.Ident:
				if obj := info.Uses[x]; obj != nil {
					source = src[obj]
				}
			}
			if source == "" {
				return true
			}
			count[source]++
			out = append(out, seqSite{Key: fmt.Sprintf("%s.%s:rangeseq(%s)#%d", p.Types.Name(), fd.Name.Name, source, count[source]), Source: source, Stmt: rs, Pkg: p, Fn: fd})
			return true
		})
	}
	return out
}

// c19Sequences is rule C19-d.
func c19Sequences(c *Ctx) {
	r := c.R
	g := c.G()
	if g == nil {
		return
	}
	isGen := func(fn string) bool { return strings.HasSuffix(fn, "/pigeon.go") || strings.HasSuffix(fn, "_test.go") }
	nSites, nFns := 0, 0
	var fnNames []string
	for _, sfx := range []string{"", "ast", "builder"} {
		p := g.Pkg(sfx)
		tf := orderTaintedFuncs(p)
		for k := range tf {
			fnNames = append(fnNames, p.Types.Name()+"."+k)
		}
		nFns += len(tf)
		sites := seqSites(p, tf, func(fd *ast.FuncDecl) bool { return isGen(g.Fset.Position(fd.Pos()).Filename) })
		for _, s := range sites {
			nSites++
			construct := "G." + s.Key
			// what one trip round the loop does, helpers of the package included: the iterations are independent when no
			// container that a trip modifies is read by a trip, no field that a trip stores into is read by a trip, and
			// every store into a field or a variable that outlives the trip stores a constant
			eff := newSeqEffects(s.Pkg, s.Stmt)
			eff.walk(s.Stmt.Body, map[types.Object]string{}, nil, 0)
			if bad := eff.conflicts(); len(bad) > 0 {
				r.Bad("C19-d", construct, "", g.Where(s.Stmt.Pos()), "the list returned by "+s.Source+" is in map-iteration order and the trips round this loop are not independent of each other: "+strings.Join(bad, "; "))
			} else {
				reason := "every trip stores constants only, and nothing a trip modifies is read by a trip"
				if rs, ok := seqReasons[s.Key]; ok {
					reason = rs.reason
				}
				r.Ok("C19-d", construct, "", g.Where(s.Stmt.Pos()), reason+" ["+eff.summary()+"]")
			}
		}
	}
	sort.Strings(fnNames)
	r.Analysed["order_tainted_list_functions"] = fnNames
	r.Analysed["loops_over_order_tainted_lists"] = nSites
	r.Min("functions returning a list in map-iteration order", 2, nFns)
	r.Min("loops over order-tainted lists", 1, nSites)
}

// mutatedParams: the indices of the parameters of a package-level function through which it modifies its argument
// (a store into an element or field, delete, clear, maps.Copy into it, or handing it on to a function that does).
func mutatedParams(p *packages.Package, fd *ast.FuncDecl, depth int) map[int]bool {
	out := map[int]bool{}
	if fd == nil || fd.Body == nil || depth > 3 {
		return out
	}
	info := p.TypesInfo
	idx := map[types.Object]int{}
	k := 0
	for _, f := range fd.Type.Params.List {
		for _, n := range f.Names {
			if o := info.Defs[n]; o != nil {
				idx[o] = k
			}
			k++
		}
		if len(f.Names) == 0 {
			k++
		}
	}
	base := func(e ast.Expr) types.Object {
		for {
			switch x := e.(type) {
			case *ast.IndexExpr:
				e = x.X
			case *ast.SelectorExpr:
				e = x.X
			case *ast.StarExpr:
				e = x.X
			case *ast.ParenExpr:
				e = x.X
			case *ast.Ident:
				return info.Uses[x]
			default:
				return nil
			}
		}
	}
	mark := func(e ast.Expr, needDeref bool) {
		if _, isIdent := e.(*ast.Ident); isIdent && needDeref {
			return // plain reassignment of the parameter itself is local
		}
		if o := base(e); o != nil {
			if i, ok := idx[o]; ok {
				out[i] = true
			}
		}
	}
	ast.Inspect(fd.Body, func(m ast.Node) bool {
		switch x := m.(type) {
		case *ast.AssignStmt:
			for _, l := range x.Lhs {
				mark(l, true)
			}
		case *ast.IncDecStmt:
			mark(x.X, true)
		case *ast.CallExpr:
			cn := callName(x)
			switch cn {
			case "delete", "clear", "maps.Copy", "maps.DeleteFunc":
				if len(x.Args) > 0 {
					mark(x.Args[0], false)
				}
			default:
				if id, ok := x.Fun.(*ast.Ident); ok {
					var callee *ast.FuncDecl
					for _, d := range load.AllFuncDecls(p) {
						if d.Recv == nil && d.Name.Name == id.Name && d != fd {
							callee = d
						}
					}
					if callee != nil {
						for i := range mutatedParams(p, callee, depth+1) {
							if i < len(x.Args) {
								mark(x.Args[i], false)
							}
						}
					}
				}
			}
		}
		return true
	})
	return out
}

// carriedThroughCallee: arguments of calls in the loop body that the callee modifies and that are neither defined in
// the body nor the loop's own element.
func carriedThroughCallee(s seqSite) []string {
	info := s.Pkg.TypesInfo
	var out []string
	body := s.Stmt.Body
	ast.Inspect(body, func(m ast.Node) bool {
		ce, ok := m.(*ast.CallExpr)
		if !ok {
			return true
		}
		id, ok := ce.Fun.(*ast.Ident)
		if !ok {
			return true
		}
		var callee *ast.FuncDecl
		for _, d := range load.AllFuncDecls(s.Pkg) {
			if d.Recv == nil && d.Name.Name == id.Name {
				callee = d
			}
		}
		if callee == nil {
			return true
		}
		for i := range mutatedParams(s.Pkg, callee, 0) {
			if i >= len(ce.Args) {
				continue
			}
			a := ce.Args[i]
			var o types.Object
			if ai, ok := a.(*ast.Ident); ok {
				o = info.Uses[ai]
			}
			fresh := false
			if o != nil && o.Pos() >= s.Stmt.Pos() && o.Pos() < body.End() {
				fresh = true // defined by the range clause or inside the body
			}
			if _, isCall := a.(*ast.CallExpr); isCall {
				fresh = true
			}
			if !fresh {
				out = append(out, fmt.Sprintf("`%s` to %s (parameter %d, which %s modifies)", nospace(a), id.Name, i+1, id.Name))
			}
		}
		return true
	})
	sort.Strings(out)
	return out
}

// sccSelfLoops (C08-g / C07-h): a strongly connected component with one vertex contains a cycle exactly when that
// vertex has an edge to itself. Every loop over the components returned by StronglyConnectedComponents that treats
// components by their size (a test of len(component) against 1 or 2) must therefore also look at the self-loop of a
// single vertex - an index expression m[v][v] with the same key twice - before it takes such a component for
// cycle-free. ComputeLeftRecursives does (a directly left-recursive rule is its own group); a consumer that does not
// misses direct recursion.
func sccSelfLoops(c *Ctx, rule string) {
	r := c.R
	g := c.G()
	if g == nil {
		return
	}
	n := 0
	for _, sfx := range []string{"", "ast", "builder"} {
		p := g.Pkg(sfx)
		info := p.TypesInfo
		tf := map[string]bool{}
		for name := range orderTaintedFuncs(p) {
			// the component search: returns a list of sets
			for _, fd := range load.AllFuncDecls(p) {
				if fd.Recv == nil && fd.Name.Name == name && fd.Type.Results != nil && len(fd.Type.Results.List) == 1 {
					if t := info.TypeOf(fd.Type.Results.List[0].Type); t != nil {
						if sl, ok := t.Underlying().(*types.Slice); ok {
							if _, ok := sl.Elem().Underlying().(*types.Map); ok {
								tf[name] = true
							}
						}
					}
				}
			}
		}
		for _, s := range seqSites(p, tf, func(fd *ast.FuncDecl) bool {
			fn := g.Fset.Position(fd.Pos()).Filename
			return strings.HasSuffix(fn, "_test.go")
		}) {
			elem, ok := s.Stmt.Value.(*ast.Ident)
			if !ok {
				continue
			}
			elemObj := info.Defs[elem]
			bySize, selfLoop := false, false
			ast.Inspect(s.Stmt.Body, func(m ast.Node) bool {
				switch x := m.(type) {
				case *ast.BinaryExpr:
					for _, side := range []ast.Expr{x.X, x.Y} {
						if ce, ok := side.(*ast.CallExpr); ok && callName(ce) == "len" && len(ce.Args) == 1 {
							if id, ok := ce.Args[0].(*ast.Ident); ok && info.Uses[id] == elemObj {
								bySize = true
							}
						}
					}
				case *ast.IndexExpr:
					if in, ok := x.X.(*ast.IndexExpr); ok && nospace(in.Index) == nospace(x.Index) {
						selfLoop = true
					}
				}
				return true
			})
			// the self-loop test may sit in a helper that receives the component
			if bySize && !selfLoop {
				ast.Inspect(s.Stmt.Body, func(m ast.Node) bool {
					ce, ok := m.(*ast.CallExpr)
					if !ok {
						return true
					}
					id, ok := ce.Fun.(*ast.Ident)
					if !ok {
						return true
					}
					for _, d := range load.AllFuncDecls(p) {
						if d.Recv == nil && d.Name.Name == id.Name && d.Body != nil {
							ast.Inspect(d.Body, func(k ast.Node) bool {
								if x, ok := k.(*ast.IndexExpr); ok {
									if in, ok := x.X.(*ast.IndexExpr); ok && nospace(in.Index) == nospace(x.Index) {
										selfLoop = true
									}
								}
								return true
							})
						}
					}
					return true
				})
			}
			n++
			construct := "G." + strings.Replace(s.Key, "rangeseq", "components", 1)
			switch {
			case !bySize:
				r.Ok(rule, construct, "", g.Where(s.Stmt.Pos()), "the loop does not distinguish components by size")
			case selfLoop:
				r.Ok(rule, construct, "", g.Where(s.Stmt.Pos()), "components are told apart by size and the self-loop of a single vertex is consulted")
			default:
				r.Bad(rule, construct, "", g.Where(s.Stmt.Pos()), "the loop over the components of "+s.Source+" decides by len("+elem.Name+") alone: a component with one vertex still contains a cycle when the vertex has an edge to itself (a directly left-recursive rule), and nothing here looks at graph[v][v]")
			}
		}
	}
	r.Min("loops over strongly connected components", 1, n)
}

// seqEffects: the effects of one trip round a loop, with the package-level functions it calls expanded (parameters
// bound to the caller's variables).
type seqEffects struct {
	p      *packages.Package
	loop   *ast.RangeStmt
	mod    map[string][]string // container (variable that outlives a trip) -> how it is modified
	read   map[string][]string // container -> how it is read
	fieldW map[string]bool     // "<container>.<field>" stored into; value: every store is a constant
	fieldR map[string]bool     // "<container>.<field>" read
	varW   map[string]bool     // scalar variable that outlives a trip, assigned; value: every store is a constant
	varR   map[string]bool
	active map[*ast.FuncDecl]bool
	other  []string
}

func newSeqEffects(p *packages.Package, loop *ast.RangeStmt) *seqEffects {
	return &seqEffects{p: p, loop: loop, mod: map[string][]string{}, read: map[string][]string{}, fieldW: map[string]bool{}, fieldR: map[string]bool{}, varW: map[string]bool{}, varR: map[string]bool{}, active: map[*ast.FuncDecl]bool{}}
}

// base resolves an expression to the variable it is rooted in: "" for something fresh in every trip (declared in the
// loop body or in a callee, the loop's own element, a call result), else a name for a variable that outlives a trip.
func (e *seqEffects) base(x ast.Expr, env map[types.Object]string, callee *ast.FuncDecl) string {
	info := e.p.TypesInfo
	for {
		switch y := x.(type) {
		case *ast.IndexExpr:
			x = y.X
			continue
		case *ast.SelectorExpr:
			x = y.X
			continue
		case *ast.StarExpr:
			x = y.X
			continue
		case *ast.ParenExpr:
			x = y.X
			continue
		case *ast.SliceExpr:
			x = y.X
			continue
		case *ast.UnaryExpr:
			x = y.X
			continue
		}
		break
	}
	id, ok := x.(*ast.Ident)
	if !ok {
		return ""
	}
	obj := info.Uses[id]
	if obj == nil {
		obj = info.Defs[id]
	}
	if obj == nil {
		return ""
	}
	if b, ok := env[obj]; ok {
		return b
	}
	if _, isVar := obj.(*types.Var); !isVar {
		return ""
	}
	if obj.Pos() >= e.loop.Pos() && obj.Pos() < e.loop.End() {
		return "" // the element, or declared in the body
	}
	if callee != nil && obj.Pos() >= callee.Pos() && obj.Pos() < callee.End() {
		return "" // a local of a callee
	}
	return obj.Name()
}

func (e *seqEffects) isConst(x ast.Expr) bool {
	if tv, ok := e.p.TypesInfo.Types[x]; ok && tv.Value != nil {
		return true
	}
	switch nospace(x) {
	case "true", "false", "nil", "struct{}{}":
		return true
	}
	return false
}

func (e *seqEffects) walk(n ast.Node, env map[types.Object]string, callee *ast.FuncDecl, depth int) {
	info := e.p.TypesInfo
	lhs := map[ast.Expr]bool{}
	emptiness := map[ast.Expr]bool{} // len(x) calls that are only compared with zero
	ast.Inspect(n, func(m ast.Node) bool {
		switch x := m.(type) {
		case *ast.BinaryExpr:
			l, r := nospace(x.X), nospace(x.Y)
			switch {
			case r == "0" && (x.Op == token.EQL || x.Op == token.NEQ || x.Op == token.GTR || x.Op == token.LEQ),
				r == "1" && (x.Op == token.LSS || x.Op == token.GEQ):
				emptiness[x.X] = true
			case l == "0" && (x.Op == token.EQL || x.Op == token.NEQ || x.Op == token.LSS || x.Op == token.GEQ):
				emptiness[x.Y] = true
			}
		case *ast.AssignStmt:
			for i, l := range x.Lhs {
				lhs[l] = true
				var rhs ast.Expr
				if len(x.Rhs) == len(x.Lhs) {
					rhs = x.Rhs[i]
				}
				switch t := l.(type) {
				case *ast.Ident:
					b := e.base(t, env, callee)
					if b == "" || t.Name == "_" {
						continue
					}
					if obj := info.Uses[t]; obj != nil {
						if _, isParam := env[obj]; isParam {
							continue // a callee rebinding its own parameter
						}
					}
					if ce, ok := rhs.(*ast.CallExpr); ok && callName(ce) == "append" {
						e.mod[b] = append(e.mod[b], "appended to")
						continue
					}
					c := rhs != nil && e.isConst(rhs) && x.Tok == token.ASSIGN
					if old, seen := e.varW[b]; seen {
						e.varW[b] = old && c
					} else {
						e.varW[b] = c
					}
				case *ast.IndexExpr:
					if b := e.base(t, env, callee); b != "" {
						e.mod[b] = append(e.mod[b], "element stored")
					}
				case *ast.SelectorExpr:
					if b := e.base(t, env, callee); b != "" {
						k := b + "." + t.Sel.Name
						c := rhs != nil && e.isConst(rhs) && x.Tok == token.ASSIGN
						if old, seen := e.fieldW[k]; seen {
							e.fieldW[k] = old && c
						} else {
							e.fieldW[k] = c
						}
					}
				case *ast.StarExpr:
					if b := e.base(t, env, callee); b != "" {
						e.other = append(e.other, "store through "+nospace(t))
					}
				}
			}
		case *ast.IncDecStmt:
			if b := e.base(x.X, env, callee); b != "" {
				e.varW[b] = false
				lhs[x.X] = true
			}
		case *ast.RangeStmt:
			if x != e.loop {
				if b := e.base(x.X, env, callee); b != "" {
					if selfFilter(x) {
						// `for k := range S { if keep(k) { continue }; delete(S, k) }`: S is narrowed to the elements that
						// pass a test which does not look at S - an intersection, whatever the order of the trips
						e.read[b] = append(e.read[b], "ranged over to filter itself")
					} else {
						e.read[b] = append(e.read[b], "ranged over")
					}
				}
			}
		case *ast.CallExpr:
			switch cn := callName(x); cn {
			case "delete", "clear", "maps.Copy", "maps.DeleteFunc":
				if len(x.Args) > 0 {
					if b := e.base(x.Args[0], env, callee); b != "" {
						e.mod[b] = append(e.mod[b], cn)
					}
				}
			case "len", "cap":
				if len(x.Args) == 1 {
					if b := e.base(x.Args[0], env, callee); b != "" {
						if emptiness[x] {
							e.read[b] = append(e.read[b], "tested for emptiness")
						} else {
							e.read[b] = append(e.read[b], cn)
						}
					}
				}
			case "append", "make", "new", "panic", "string", "min", "max":
			default:
				var hd *ast.FuncDecl
				if id, ok := x.Fun.(*ast.Ident); ok {
					if fn, ok := info.Uses[id].(*types.Func); ok && fn.Pkg() == e.p.Types {
						for _, d := range load.AllFuncDecls(e.p) {
							if d.Recv == nil && d.Body != nil && info.Defs[d.Name] == fn {
								hd = d
							}
						}
					}
				}
				if hd != nil && !e.active[hd] && depth < 5 {
					env2 := map[types.Object]string{}
					k := 0
					for _, f := range hd.Type.Params.List {
						for _, nm := range f.Names {
							if k < len(x.Args) {
								if obj := info.Defs[nm]; obj != nil {
									env2[obj] = e.base(x.Args[k], env, callee)
								}
							}
							k++
						}
					}
					e.active[hd] = true
					e.walk(hd.Body, env2, hd, depth+1)
					delete(e.active, hd)
				} else if hd == nil {
					// a function of another package (fmt.Errorf, sort.Strings …): it reads what it is handed
					for _, a := range x.Args {
						if b := e.base(a, env, callee); b != "" {
							if strings.HasPrefix(cn, "sort.") || strings.HasPrefix(cn, "slices.Sort") {
								e.mod[b] = append(e.mod[b], cn)
							} else {
								e.read[b] = append(e.read[b], "passed to "+cn)
							}
						}
					}
				}
			}
		}
		return true
	})
	// reads: index expressions and field selections that are not assignment targets
	ast.Inspect(n, func(m ast.Node) bool {
		switch x := m.(type) {
		case *ast.AssignStmt:
			for _, l := range x.Lhs {
				if ix, ok := l.(*ast.IndexExpr); ok {
					lhs[ix] = true
				}
			}
		case *ast.IndexExpr:
			if lhs[x] {
				return true
			}
			if t := info.TypeOf(x.X); t != nil {
				if _, isMap := t.Underlying().(*types.Map); isMap {
					if b := e.base(x.X, env, callee); b != "" {
						e.read[b] = append(e.read[b], "looked up")
					}
				}
			}
		case *ast.SelectorExpr:
			if lhs[x] {
				return true
			}
			if _, isField := info.Selections[x]; isField {
				if b := e.base(x, env, callee); b != "" {
					e.fieldR[b+"."+x.Sel.Name] = true
				}
			}
		case *ast.Ident:
			if lhs[x] {
				return true
			}
			if obj := info.Uses[x]; obj != nil {
				if _, isVar := obj.(*types.Var); isVar {
					if t := obj.Type(); t != nil {
						if _, isBasic := t.Underlying().(*types.Basic); isBasic {
							if b := e.base(x, env, callee); b != "" {
								e.varR[b] = true
							}
						}
					}
				}
			}
		}
		return true
	})
}

func (e *seqEffects) conflicts() []string {
	var bad []string
	for b, how := range e.mod {
		for _, h := range how {
			if h == "appended to" {
				bad = append(bad, b+" is appended to in the order of the list")
			}
		}
		if r, ok := e.read[b]; ok {
			// a set that only shrinks and is only asked whether it is empty: "empty at some point" holds for every
			// order or for none (the intersection of all the trips' deletions is what counts)
			if subsetOf(how, "delete", "maps.DeleteFunc") && subsetOf(r, "tested for emptiness", "ranged over to filter itself") {
				continue
			}
			bad = append(bad, fmt.Sprintf("%s lives across trips, is modified by a trip (%s) and read by a trip (%s): what a trip finds there depends on which components came before", b, strings.Join(uniq(how), ", "), strings.Join(uniq(r), ", ")))
		}
	}
	for k, c := range e.fieldW {
		if !c {
			bad = append(bad, "field "+k+" receives a value that is not a constant")
		}
		if e.fieldR[k] {
			bad = append(bad, "field "+k+" is stored into by a trip and read by a trip")
		}
	}
	for b, c := range e.varW {
		if !c {
			bad = append(bad, "variable "+b+", which lives across trips, receives a value that is not a constant")
		}
	}
	bad = append(bad, e.other...)
	sort.Strings(bad)
	return uniq(bad)
}

func (e *seqEffects) summary() string {
	var parts []string
	for _, k := range keysOfBool(e.fieldW) {
		parts = append(parts, "constant into "+k)
	}
	for b := range e.mod {
		parts = append(parts, b+" modified")
	}
	for _, b := range keysOfBool(e.varW) {
		parts = append(parts, "constant into "+b)
	}
	sort.Strings(parts)
	return strings.Join(parts, ", ")
}

func keysOfBool(m map[string]bool) []string {
	var out []string
	for k := range m {
		out = append(out, k)
	}
	sort.Strings(out)
	return out
}

func subsetOf(xs []string, allowed ...string) bool {
	for _, x := range xs {
		ok := false
		for _, a := range allowed {
			if x == a {
				ok = true
			}
		}
		if !ok {
			return false
		}
	}
	return true
}

// selfFilter: a range over a set whose body does nothing but delete the current key from that same set, under
// conditions that do not mention the set (if/continue guards, lookups in other containers).
func selfFilter(rs *ast.RangeStmt) bool {
	key, ok := rs.Key.(*ast.Ident)
	if !ok || rs.Value != nil && nospace(rs.Value) != "_" {
		return false
	}
	set := nospace(rs.X)
	okBody := true
	deletes := 0
	var stmts func(list []ast.Stmt)
	stmts = func(list []ast.Stmt) {
		for _, st := range list {
			switch x := st.(type) {
			case *ast.IfStmt:
				if x.Init != nil {
					// `if _, ok := other[k]; ok` - a lookup elsewhere
					if strings.Contains(nospace2(x.Init), set) {
						okBody = false
					}
				}
				if strings.Contains(nospace(x.Cond), set) {
					okBody = false
				}
				stmts(x.Body.List)
				switch el := x.Else.(type) {
				case *ast.BlockStmt:
					stmts(el.List)
				case *ast.IfStmt:
					stmts([]ast.Stmt{el})
				}
			case *ast.BranchStmt:
				if x.Tok != token.CONTINUE {
					okBody = false
				}
			case *ast.ExprStmt:
				ce, isCall := x.X.(*ast.CallExpr)
				if isCall && callName(ce) == "delete" && len(ce.Args) == 2 && nospace(ce.Args[0]) == set && nospace(ce.Args[1]) == key.Name {
					deletes++
				} else {
					okBody = false
				}
			default:
				okBody = false
			}
		}
	}
	stmts(rs.Body.List)
	return okBody && deletes > 0
}

func nospace2(s ast.Stmt) string {
	if as, ok := s.(*ast.AssignStmt); ok {
		var parts []string
		for _, r := range as.Rhs {
			parts = append(parts, nospace(r))
		}
		return strings.Join(parts, ",")
	}
	return "?"
}
