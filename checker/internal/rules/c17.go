package rules

import (
	"fmt"
	"go/ast"
	"sort"
	"strings"

	"pigeonverif/internal/variants"
)

// C17 — invalid UTF-8 is reported by default and matched bytewise when allowed.
func C17(c *Ctx) {
	r := c.R
	r.Technique = "AST/guard rules on read() and the option; type-resolved who-may-write scan for the input; end-of-input dominance (typestate abstract interpretation) in the three terminal matchers; all 16 variants"
	r.Explanation = "Decides: (a) read() stores utf8.DecodeRune's rune and width unchanged (so an invalid byte is a one-byte U+FFFD in both modes) and adds errInvalidEncoding exactly under rn == utf8.RuneError && n == 1 && !p.allowInvalidUTF8; (b) matched values and text are slices of the never-written input taken by byte offsets; (c) no terminal advances at end of input, where the pseudo-rune is also U+FFFD (sibling rule of C01-e; finding F9 for literals); (d) the option only writes its flag and the flag is read only in read(). Not decided: de-duplication of the encoding error under backtracking."
	r.Assumptions = []string{"utf8.DecodeRune contract: (RuneError,1) for an invalid byte, (RuneError,0) at end of input"}
	r.Rule("C17-a", "read(): rn, n := utf8.DecodeRune(p.data[p.pt.offset:]) stored unchanged into p.pt.rn / p.pt.w; p.addErr(errInvalidEncoding) is guarded by exactly rn == utf8.RuneError && n == 1 and !p.allowInvalidUTF8; it is the only use of errInvalidEncoding")
	r.Rule("C17-b", "sliceFrom returns p.data[start.offset:p.pt.offset]; p.data is never stored to")
	r.Rule("C17-c", "every read() in the terminal matchers is dominated by not-at-EOF (see C01-e)")
	r.Rule("C17-e", "generator side of 'classes containing U+FFFD match the invalid byte': CharClassMatcher.parse stores every rune it reads (no rune value is skipped), see C03-e")
	r.Rule("C17-f", "matched values are the original bytes: every successful return of the three terminal matchers yields the slice of the input between the entry position and the position reached (C01-c for the terminals under this property) - not a value derived from the decoded rune, which is U+FFFD for every invalid byte")
	r.Rule("C17-d", "p.allowInvalidUTF8 is assigned only by the AllowInvalidUTF8 option and read only in read()")
	abs := c.allAbs()
	r.Min("semantic variants analysed", 16, len(abs))
	for _, a := range abs {
		valueProvenance(c, a, "C17-f", true)
		v := a.V
		vn := v.Name
		c02Read(c, v, "C17-a")
		fd := v.Func("parser", "read")
		var guards [][]string
		uses := 0
		for _, f := range v.Funcs() {
			if f.Body == nil {
				continue
			}
			ast.Inspect(f.Body, func(n ast.Node) bool {
				if id, ok := n.(*ast.Ident); ok && id.Name == "errInvalidEncoding" {
					uses++
				}
				return true
			})
		}
		if fd != nil {
			for _, ce := range callsIn(fd.Body) {
				if callSel(ce) == "addErr" && len(ce.Args) == 1 && nospace(ce.Args[0]) == "errInvalidEncoding" {
					guards = append(guards, guardsOf(fd.Body, ce.Pos()))
				}
			}
		}
		// (under which condition the error is added is decided on the paths of read(), obligation T.read:accounting)
		okG := len(guards) == 1 && uses == 1
		r.Check(okG, "C17-a", "T.read:invalid-encoding-guard", vn, "builder/static_code.go", "errInvalidEncoding is used once, by the addErr call in read()", fmt.Sprintf("%d addErr(errInvalidEncoding) calls in read() (guards %v), %d uses of errInvalidEncoding in the runtime", len(guards), guards, uses))
		// ---- b
		sf := v.Func("parser", "sliceFrom")
		okS := false
		if sf != nil && len(sf.Type.Params.List) == 1 && len(sf.Type.Params.List[0].Names) == 1 {
			// on the normalised paths (locals read as their values): every path returns the bytes of the input between
			// the savepoint's offset and the current one, and nothing decides otherwise
			param := sf.Type.Params.List[0].Names[0].Name
			paths := c.vnorm(v).normPaths(sf)
			okS = len(paths) > 0
			for _, p := range paths {
				t := strings.ReplaceAll(lastReturn(p), ".position.offset", ".offset")
				if t != "p.data["+param+".offset:p.pt.offset]" || len(p.facts()) > 0 {
					okS = false
				}
			}
		}
		r.Check(okS, "C17-b", "T.sliceFrom:original-bytes", vn, "builder/static_code.go", "p.data[start.offset:p.pt.offset]", "sliceFrom is not a byte slice of the input between the savepoint and the current offset")
		var ws []string
		for _, w := range fieldWrites(v) {
			if w.Owner == "parser" && w.Field == "data" {
				ws = append(ws, w.Func)
			}
			if w.Owner == "parser" && w.Field == "allowInvalidUTF8" && w.Func != "AllowInvalidUTF8" {
				ws = append(ws, "flag:"+w.Func)
			}
		}
		r.Check(len(ws) == 0, "C17-b", "T.parser.data:never-written", vn, "builder/static_code.go", "no store to p.data; flag written only by its option", "stores: "+strings.Join(ws, ","))
		// matchers decide on the decoded rune only: the raw input is read by read() and sliceFrom() alone
		dataReaders(c, a.V, "C17-b")
		// ---- c
		c01e2(c, a, "C17-c")
		// ---- d: readers of the flag
		var readers []string
		for _, f := range v.Funcs() {
			if f.Body == nil || f.Name.Name == "AllowInvalidUTF8" {
				continue
			}
			ast.Inspect(f.Body, func(n ast.Node) bool {
				if s, ok := n.(*ast.SelectorExpr); ok && s.Sel.Name == "allowInvalidUTF8" {
					readers = append(readers, f.Name.Name)
				}
				return true
			})
		}
		sort.Strings(readers)
		r.Check(strings.Join(readers, ",") == "read", "C17-d", "T.allowInvalidUTF8:readers", vn, "builder/static_code.go", "read() only", "read in ["+strings.Join(readers, ",")+"]")
	}
	classParserKeepsEveryRune(c, "C17-e")
}

// c01e2 is C01-e under another rule id.
func c01e2(c *Ctx, a *absVariant, rule string, why ...string) {
	whyText := "at EOF the pseudo-rune is U+FFFD (width 0), so U+FFFD 'matches' the empty tail and the invalid-byte and end-of-input cases are confused"
	if len(why) > 0 {
		whyText = why[0]
	}
	r := c.R
	for _, fn := range []string{"parseAnyMatcher", "parseCharClassMatcher", "parseLitMatcher"} {
		res := a.Res[fn]
		if res == nil {
			continue
		}
		w := a.V.Where(res.Fn.Pos())
		var bad []string
		n := 0
		for _, e := range res.Exits {
			for _, ev := range eventsOf(e, "read") {
				n++
				if ev.Args[0] != "notEOF" {
					bad = append(bad, a.V.Where(ev.Pos)+": read() reachable without an end-of-input test: "+whyText)
				}
			}
		}
		sort.Strings(bad)
		if len(bad) > 0 {
			r.Bad(rule, "T."+fn+":no-read-at-EOF", a.V.Name, w, bad[0])
		} else {
			r.Ok(rule, "T."+fn+":no-read-at-EOF", a.V.Name, w, fmt.Sprintf("%d read events, all under not-EOF", n))
		}
	}
}

// dataReaders: p.data may be read only where runes are decoded (read) and where values are sliced (sliceFrom).
func dataReaders(c *Ctx, v *variants.Variant, rule string) {
	r := c.R
	var bad []string
	n := 0
	for _, f := range v.Funcs() {
		if f.Body == nil {
			continue
		}
		ast.Inspect(f.Body, func(nd ast.Node) bool {
			s, ok := nd.(*ast.SelectorExpr)
			if !ok || s.Sel.Name != "data" {
				return true
			}
			if t := v.Info.TypeOf(s.X); t == nil || namedOf(t) != "parser" {
				return true
			}
			n++
			switch f.Name.Name {
			case "read", "sliceFrom":
			default:
				bad = append(bad, v.Where(s.Pos())+": "+f.Name.Name+" reads the raw input bytes: matching must be decided on the decoded rune (an invalid byte is the rune U+FFFD, whose UTF-8 encoding differs from the byte in the input)")
			}
			return true
		})
	}
	sort.Strings(bad)
	if len(bad) > 0 {
		r.Bad(rule, "T.parser.data:readers", v.Name, "builder/static_code.go", bad[0])
	} else {
		r.Ok(rule, "T.parser.data:readers", v.Name, "builder/static_code.go", fmt.Sprintf("%d reads, all in read()/sliceFrom()", n))
	}
}
