package rules

// C13-q — delimiter stripping is justified by what the front-end hands over.
//
// The generator removes the delimiters of node texts by position: `raw[1:len(raw)-1]` in CharClassMatcher.parse,
// `init.Val[1:len(init.Val)-1]` in writeInit, `strings.TrimSpace(code.Val)[1:len(code.Val)-1]` in writeFunc, and the
// one-byte trims that follow them. Each is a slice of a string with constant distances from the two ends; it panics
// (slice bounds out of range, a Go trace instead of a diagnostic) when the text is shorter than the two distances
// together. Nothing in the function tests the length: the text is believed to carry its delimiters because the grammar
// rule whose action built the node matched them. This rule decides that belief:
//
//   - a string *shape* is (known prefix, known suffix, minimal length, exact?); a value is a finite set of shapes;
//   - the shapes of a node text are computed from where the text comes from: the argument of every call of the node's
//     constructor - a string constant, or `string(c.text)` inside the action method on<Rule><N> of the front-end
//     pigeon.go, whose shapes are those of the expression the action is attached to in the grammar literal (literals
//     give their bytes, classes and `.` one byte at least, sequences concatenate, choices unite, `?`/`*` add the empty
//     text, predicates consume nothing, references are expanded, a recursive reference is the unknown shape);
//   - a small structural interpreter runs every generator function that slices a string by constant distances on
//     these shapes: assignments, `strings.TrimSpace` (the identity when both ends are known and not white space),
//     `strings.HasSuffix/HasPrefix` and length tests in conditions (also through a boolean stored just before), early
//     returns; anything it does not model makes the value unknown (minimal length 0);
//   - every such slice expression must have, for each shape that reaches it, minimal length >= low + distance from
//     the end.
//
// What it does not decide: subscripts by computed positions (C13-f/g/j/n), slices of lists, the hand-written bootstrap
// front-end (another binary).

import (
	"fmt"
	"go/ast"
	"go/constant"
	"go/parser"
	"go/token"
	"go/types"
	"sort"
	"strconv"
	"strings"
	"unicode"
	"unicode/utf8"

	"golang.org/x/tools/go/packages"

	"pigeonverif/internal/load"
)

type tshape struct {
	pre, suf string
	min      int
	exact    bool // the text is exactly pre (== suf)
}

func (s tshape) String() string {
	if s.exact {
		return fmt.Sprintf("=%q", s.pre)
	}
	return fmt.Sprintf("%q…%q(len>=%d)", s.pre, s.suf, s.min)
}

type tset []tshape

var unknownShape = tshape{}

func exactShape(s string) tshape { return tshape{pre: s, suf: s, min: len(s), exact: true} }

func (a tset) norm() tset {
	seen := map[tshape]bool{}
	var out tset
	for _, s := range a {
		if s.min < len(s.pre) {
			s.min = len(s.pre)
		}
		if s.min < len(s.suf) {
			s.min = len(s.suf)
		}
		if !seen[s] {
			seen[s] = true
			out = append(out, s)
		}
	}
	sort.Slice(out, func(i, j int) bool { return out[i].String() < out[j].String() })
	if len(out) > 24 {
		// too many shapes: keep what they have in common
		m := out[0]
		m.exact = false
		for _, s := range out[1:] {
			m.pre = commonPrefix(m.pre, s.pre)
			m.suf = commonSuffix(m.suf, s.suf)
			if s.min < m.min {
				m.min = s.min
			}
		}
		return tset{m}
	}
	return out
}

func commonPrefix(a, b string) string {
	i := 0
	for i < len(a) && i < len(b) && a[i] == b[i] {
		i++
	}
	return a[:i]
}

func commonSuffix(a, b string) string {
	i := 0
	for i < len(a) && i < len(b) && a[len(a)-1-i] == b[len(b)-1-i] {
		i++
	}
	return a[len(a)-i:]
}

func (a tset) String() string {
	var p []string
	for _, s := range a {
		p = append(p, s.String())
	}
	return "{" + strings.Join(p, ", ") + "}"
}

func concatShape(a, b tshape) tshape {
	o := tshape{pre: a.pre, suf: b.suf, min: a.min + b.min, exact: a.exact && b.exact}
	if a.exact {
		o.pre = a.pre + b.pre
	}
	if b.exact {
		o.suf = a.suf + b.suf
	}
	return o
}

func concatSets(a, b tset) tset {
	var out tset
	for _, x := range a {
		for _, y := range b {
			out = append(out, concatShape(x, y))
		}
	}
	return out.norm()
}

// sliceShape: x[lo:len(x)-hi]; ok=false when the shape does not guarantee lo+hi bytes.
func sliceShape(s tshape, lo, hi int) (tshape, bool) {
	if s.min < lo+hi {
		return unknownShape, false
	}
	if s.exact {
		return exactShape(s.pre[lo : len(s.pre)-hi]), true
	}
	o := tshape{min: s.min - lo - hi}
	if len(s.pre) >= lo {
		o.pre = s.pre[lo:]
		if len(o.pre) > o.min {
			o.pre = o.pre[:o.min]
		}
	}
	if len(s.suf) >= hi {
		o.suf = s.suf[:len(s.suf)-hi]
		if len(o.suf) > o.min {
			o.suf = o.suf[len(o.suf)-o.min:]
		}
	}
	return o, true
}

// ---------------------------------------------------------------------------------------------------------------
// shapes of grammar expressions (the literal `g` of pigeon.go)

type gshapes struct {
	l     *layoutCtx
	stack map[string]bool
}

func (g *gshapes) of(cl *ast.CompositeLit) tset {
	if cl == nil {
		return tset{unknownShape}
	}
	l := g.l
	switch l.kind(cl) {
	case "litMatcher":
		v, ok := litField(l.root, cl, "val")
		if !ok {
			return tset{unknownShape}
		}
		if ic := l.field(cl, "ignoreCase"); ic != nil && nospace(ic) == "true" {
			return tset{{min: utf8.RuneCountInString(v)}}
		}
		return tset{exactShape(v)}
	case "charClassMatcher", "anyMatcher":
		return tset{{min: 1}}
	case "andExpr", "notExpr", "andCodeExpr", "notCodeExpr", "stateCodeExpr":
		return tset{exactShape("")}
	case "throwExpr":
		return tset{unknownShape}
	case "seqExpr":
		out := tset{exactShape("")}
		for _, it := range l.list(cl, "exprs") {
			out = concatSets(out, g.of(it))
		}
		return out
	case "choiceExpr":
		var out tset
		for _, a := range l.list(cl, "alternatives") {
			out = append(out, g.of(a)...)
		}
		if len(out) == 0 {
			return tset{unknownShape}
		}
		return out.norm()
	case "zeroOrOneExpr":
		return append(tset{exactShape("")}, g.of(l.child(cl))...).norm()
	case "zeroOrMoreExpr", "oneOrMoreExpr":
		in := g.of(l.child(cl))
		m := in[0]
		m.exact = false
		for _, s := range in[1:] {
			m.pre, m.suf = commonPrefix(m.pre, s.pre), commonSuffix(m.suf, s.suf)
			if s.min < m.min {
				m.min = s.min
			}
		}
		// one iteration at least: starts like an iteration, ends like one
		if len(m.pre) > m.min {
			m.pre = m.pre[:m.min]
		}
		if len(m.suf) > m.min {
			m.suf = m.suf[len(m.suf)-m.min:]
		}
		if l.kind(cl) == "zeroOrMoreExpr" {
			return tset{exactShape(""), m}.norm()
		}
		return tset{m}
	case "recoveryExpr":
		out := g.of(l.child(cl))
		if rc := unwrapLit(l.field(cl, "recoverExpr")); rc != nil {
			out = append(out, g.of(rc)...)
		} else {
			out = append(out, unknownShape)
		}
		return out.norm()
	case "labeledExpr", "actionExpr":
		return g.of(l.child(cl))
	case "ruleRefExpr":
		n, _ := litField(l.root, cl, "name")
		e := unwrapLit(l.exprs[n])
		if e == nil || g.stack[n] {
			return tset{unknownShape}
		}
		g.stack[n] = true
		defer delete(g.stack, n)
		return g.of(e)
	}
	return tset{unknownShape}
}

// ---------------------------------------------------------------------------------------------------------------
// origins of texts

type qctx struct {
	g       *load.G
	pkgs    []*packages.Package
	root    *packages.Package
	lay     *layoutCtx
	actions map[string]*ast.CompositeLit // "onRule3" -> actionExpr
	skip    func(string) bool
	decls   map[types.Object]*ast.FuncDecl
	declPkg map[*ast.FuncDecl]*packages.Package
	notes   []string
	depth   int
}

func (q *qctx) note(format string, a ...any) { q.notes = append(q.notes, fmt.Sprintf(format, a...)) }

func (q *qctx) info(fd *ast.FuncDecl) *types.Info { return q.declPkg[fd].TypesInfo }

// enclosing function of a position
func (q *qctx) enclosing(pos token.Pos) *ast.FuncDecl {
	for _, fd := range q.decls {
		if fd.Pos() <= pos && pos < fd.End() {
			return fd
		}
	}
	return nil
}

// callsOf lists every call of the function object in the generator packages (pigeon.go included: it is the caller of
// the node constructors).
func (q *qctx) callsOf(obj types.Object) []*ast.CallExpr {
	var out []*ast.CallExpr
	for _, p := range q.pkgs {
		for i, f := range p.Syntax {
			fn := p.CompiledGoFiles[i]
			if strings.HasSuffix(fn, "_test.go") {
				continue
			}
			ast.Inspect(f, func(n ast.Node) bool {
				ce, ok := n.(*ast.CallExpr)
				if !ok {
					return true
				}
				var id *ast.Ident
				switch fx := ce.Fun.(type) {
				case *ast.Ident:
					id = fx
				case *ast.SelectorExpr:
					id = fx.Sel
				}
				if id != nil && p.TypesInfo.Uses[id] == obj {
					out = append(out, ce)
				}
				return true
			})
		}
	}
	return out
}

// paramShapes: the shapes of the idx-th parameter of fd over all its call sites.
func (q *qctx) paramShapes(fd *ast.FuncDecl, idx int) tset {
	if q.depth > 3 {
		return tset{unknownShape}
	}
	q.depth++
	defer func() { q.depth-- }()
	obj := q.info(fd).Defs[fd.Name]
	calls := q.callsOf(obj)
	if len(calls) == 0 {
		q.note("%s has no call site in the tool", fd.Name.Name)
		return tset{unknownShape}
	}
	var out tset
	for _, ce := range calls {
		if idx >= len(ce.Args) {
			out = append(out, unknownShape)
			continue
		}
		out = append(out, q.argShapes(ce, ce.Args[idx])...)
	}
	return out.norm()
}

func (q *qctx) argShapes(ce *ast.CallExpr, arg ast.Expr) tset {
	in := q.enclosing(ce.Pos())
	if in == nil {
		return tset{unknownShape}
	}
	info := q.info(in)
	arg = stripParens(arg)
	if tv, ok := info.Types[arg]; ok && tv.Value != nil && tv.Value.Kind() == constant.String {
		return tset{exactShape(constant.StringVal(tv.Value))}
	}
	// string(c.text) in an action method of the front-end
	if conv, ok := arg.(*ast.CallExpr); ok && len(conv.Args) == 1 && nospace(conv.Fun) == "string" && in.Recv != nil {
		if sel, ok := stripParens(conv.Args[0]).(*ast.SelectorExpr); ok && sel.Sel.Name == "text" && namedOf(info.TypeOf(sel.X)) == "current" {
			if act := q.actions[in.Name.Name]; act != nil {
				gs := &gshapes{l: q.lay, stack: map[string]bool{}}
				sh := gs.of(q.lay.child(act))
				q.note("%s: text of %s = %s", q.g.Where(ce.Pos()), in.Name.Name, sh)
				return sh
			}
			q.note("%s: no action expression runs %s", q.g.Where(ce.Pos()), in.Name.Name)
			return tset{unknownShape}
		}
	}
	// a parameter of the caller handed on
	if id, ok := arg.(*ast.Ident); ok {
		if pi, isParam := paramIndexByName(in, id.Name); isParam && !writtenBetween(in.Body, id.Name, in.Body.Pos(), in.Body.End()) {
			return q.paramShapes(in, pi)
		}
	}
	// the text of a node handed to a helper (`classFlags(c.Val)`), possibly trimmed
	switch x := arg.(type) {
	case *ast.SelectorExpr, *ast.CallExpr:
		_ = x
		sub := &qinterp{q: q, fd: in, info: info, sites: map[token.Pos]*qsite{}}
		v := sub.eval(arg, &qstate{vars: map[types.Object]tset{}, conds: map[string]ast.Expr{}})
		if len(sub.order) == 0 {
			return v
		}
	}
	q.note("%s: argument %s is not a constant, the text of an action, the text of a node, or a parameter handed on", q.g.Where(ce.Pos()), nospace(arg))
	return tset{unknownShape}
}

// nodeTextShapes: the shapes of <T>.Val, for every T of package ast that embeds posValue: the text parameter of the
// constructors (functions of package ast that build a T literal around one of their parameters) - provided nothing else
// in the generator builds a T or stores into the Val of one.
func (q *qctx) nodeTextShapes(tname string) tset {
	astp := q.g.Pkg("ast")
	if astp == nil {
		return tset{unknownShape}
	}
	var out tset
	ctors := 0
	other := ""
	for _, fd := range load.AllFuncDecls(astp) {
		if fd.Body == nil || q.skip(q.g.Fset.Position(fd.Pos()).Filename) {
			continue
		}
		ast.Inspect(fd.Body, func(n ast.Node) bool {
			switch x := n.(type) {
			case *ast.CompositeLit:
				if namedOf(astp.TypesInfo.TypeOf(x)) != tname {
					return true
				}
				// Val element: the last expression of the embedded posValue literal
				var val ast.Expr
				ast.Inspect(x, func(m ast.Node) bool {
					if pv, ok := m.(*ast.CompositeLit); ok && namedOf(astp.TypesInfo.TypeOf(pv)) == "posValue" {
						for i, el := range pv.Elts {
							if kv, ok := el.(*ast.KeyValueExpr); ok {
								if nospace(kv.Key) == "Val" {
									val = kv.Value
								}
							} else if i == 1 {
								val = el
							}
						}
					}
					return true
				})
				if id, ok := val.(*ast.Ident); ok && fd.Recv == nil {
					if pi, isParam := paramIndexByName(fd, id.Name); isParam && !writtenBetween(fd.Body, id.Name, fd.Body.Pos(), x.Pos()) {
						ctors++
						out = append(out, q.paramShapes(fd, pi)...)
						return true
					}
				}
				other = fmt.Sprintf("%s builds a %s whose text is not a parameter", q.g.Where(x.Pos()), tname)
			case *ast.AssignStmt:
				for _, lh := range x.Lhs {
					if sel, ok := lh.(*ast.SelectorExpr); ok && sel.Sel.Name == "Val" && namedOf(astp.TypesInfo.TypeOf(sel.X)) == tname {
						other = fmt.Sprintf("%s stores into the text of a %s", q.g.Where(x.Pos()), tname)
					}
				}
			}
			return true
		})
	}
	if other != "" {
		q.note("%s", other)
		out = append(out, unknownShape)
	}
	if ctors == 0 {
		out = append(out, unknownShape)
	}
	return out.norm()
}

// receiverTextShapes: recv.Val inside an unexported method of T that is called only on a value a constructor has just
// built from its parameter (NewCharClassMatcher: `c := &CharClassMatcher{…Val: raw}; c.parse()`).
func (q *qctx) receiverTextShapes(fd *ast.FuncDecl, tname string) (tset, bool) {
	if fd.Recv == nil || ast.IsExported(fd.Name.Name) {
		return nil, false
	}
	obj := q.info(fd).Defs[fd.Name]
	calls := q.callsOf(obj)
	if len(calls) == 0 {
		return nil, false
	}
	var out tset
	for _, ce := range calls {
		in := q.enclosing(ce.Pos())
		sel, ok := ce.Fun.(*ast.SelectorExpr)
		if in == nil || !ok {
			return nil, false
		}
		rid, ok := sel.X.(*ast.Ident)
		if !ok {
			return nil, false
		}
		// the receiver variable is defined once in the caller, as a literal of T whose text is a parameter
		var val ast.Expr
		defs := 0
		ast.Inspect(in.Body, func(n ast.Node) bool {
			as, ok := n.(*ast.AssignStmt)
			if !ok || len(as.Lhs) != 1 || len(as.Rhs) != 1 || nospace(as.Lhs[0]) != rid.Name {
				return true
			}
			defs++
			if cl := unwrapLit(as.Rhs[0]); cl != nil && namedOf(q.info(in).TypeOf(cl)) == tname {
				ast.Inspect(cl, func(m ast.Node) bool {
					if pv, ok := m.(*ast.CompositeLit); ok && namedOf(q.info(in).TypeOf(pv)) == "posValue" {
						for i, el := range pv.Elts {
							if kv, ok := el.(*ast.KeyValueExpr); ok {
								if nospace(kv.Key) == "Val" {
									val = kv.Value
								}
							} else if i == 1 {
								val = el
							}
						}
					}
					return true
				})
			}
			return true
		})
		id, ok := val.(*ast.Ident)
		if defs != 1 || !ok {
			return nil, false
		}
		// no store to the text between the literal and the call
		stored := false
		ast.Inspect(in.Body, func(n ast.Node) bool {
			if as, ok := n.(*ast.AssignStmt); ok && as.Pos() < ce.Pos() {
				for _, lh := range as.Lhs {
					if s, ok := lh.(*ast.SelectorExpr); ok && s.Sel.Name == "Val" {
						stored = true
					}
				}
			}
			return true
		})
		pi, isParam := paramIndexByName(in, id.Name)
		if stored || !isParam || writtenBetween(in.Body, id.Name, in.Body.Pos(), ce.Pos()) {
			return nil, false
		}
		out = append(out, q.paramShapes(in, pi)...)
	}
	return out.norm(), true
}

// ---------------------------------------------------------------------------------------------------------------
// the interpreter

type qstate struct {
	vars  map[types.Object]tset
	conds map[string]ast.Expr // boolean holder (text) -> the test it was assigned
	dead  bool
}

func (s *qstate) clone() *qstate {
	o := &qstate{vars: map[types.Object]tset{}, conds: map[string]ast.Expr{}, dead: s.dead}
	for k, v := range s.vars {
		o.vars[k] = v
	}
	for k, v := range s.conds {
		o.conds[k] = v
	}
	return o
}

func joinStates(a, b *qstate) *qstate {
	if a.dead {
		return b
	}
	if b.dead {
		return a
	}
	o := &qstate{vars: map[types.Object]tset{}, conds: map[string]ast.Expr{}}
	for k, v := range a.vars {
		if w, ok := b.vars[k]; ok {
			o.vars[k] = append(append(tset{}, v...), w...).norm()
		}
	}
	for k, v := range a.conds {
		if w, ok := b.conds[k]; ok && w == v {
			o.conds[k] = v
		}
	}
	return o
}

type qsite struct {
	pos    token.Pos
	text   string
	ok     bool
	why    string
	shapes string
}

type qinterp struct {
	q     *qctx
	fd    *ast.FuncDecl
	info  *types.Info
	sites map[token.Pos]*qsite
	order []token.Pos
}

func isStringType(t types.Type) bool {
	if t == nil {
		return false
	}
	b, ok := t.Underlying().(*types.Basic)
	return ok && b.Info()&types.IsString != 0
}

func intLit(e ast.Expr) (int, bool) {
	if e == nil {
		return 0, true
	}
	if bl, ok := stripParens(e).(*ast.BasicLit); ok && bl.Kind == token.INT {
		n, err := strconv.Atoi(bl.Value)
		return n, err == nil
	}
	return 0, false
}

// lenMinus: e is len(X) or len(X)-k; returns X and k.
func lenMinus(e ast.Expr) (ast.Expr, int, bool) { return lenMinusIn(nil, e) }

// lenMinusIn also reads `n-k` and `n` where n is a local of body defined once as len(X).
func lenMinusIn(body ast.Node, e ast.Expr) (ast.Expr, int, bool) {
	e = stripParens(e)
	k := 0
	if be, ok := e.(*ast.BinaryExpr); ok && be.Op == token.SUB {
		n, ok := intLit(be.Y)
		if !ok {
			return nil, 0, false
		}
		k = n
		e = stripParens(be.X)
	}
	if id, ok := e.(*ast.Ident); ok && body != nil {
		if d := singleDefinition(body, id.Name); d != nil {
			e = stripParens(d)
		}
	}
	if ce, ok := e.(*ast.CallExpr); ok && len(ce.Args) == 1 && nospace(ce.Fun) == "len" {
		return ce.Args[0], k, true
	}
	return nil, 0, false
}

func nonSpaceEnds(s tshape) bool {
	if s.exact && s.pre == "" {
		return true
	}
	if s.pre == "" || s.suf == "" {
		return false
	}
	f, _ := utf8.DecodeRuneInString(s.pre)
	l, _ := utf8.DecodeLastRuneInString(s.suf)
	return f != utf8.RuneError && l != utf8.RuneError && !unicode.IsSpace(f) && !unicode.IsSpace(l)
}

// eval returns the shapes of a string expression (nil: not a string we know anything about) and records the demands of
// the slice expressions inside it. sameLen lists expressions known to have the length of the result (for len(Y) bounds).
func (in *qinterp) eval(e ast.Expr, st *qstate) tset {
	e = stripParens(e)
	if tv, ok := in.info.Types[e]; ok && tv.Value != nil && tv.Value.Kind() == constant.String {
		return tset{exactShape(constant.StringVal(tv.Value))}
	}
	switch x := e.(type) {
	case *ast.Ident:
		obj := in.info.Uses[x]
		if obj == nil {
			obj = in.info.Defs[x]
		}
		if v, ok := st.vars[obj]; ok {
			return v
		}
		if isStringType(in.info.TypeOf(x)) {
			if pi, isParam := paramIndexByName(in.fd, x.Name); isParam && !writtenBetween(in.fd.Body, x.Name, in.fd.Body.Pos(), in.fd.Body.End()) {
				v := in.q.paramShapes(in.fd, pi)
				st.vars[obj] = v
				return v
			}
		}
		return tset{unknownShape}
	case *ast.SelectorExpr:
		if x.Sel.Name == "Val" && isStringType(in.info.TypeOf(x)) {
			tn := namedOf(in.info.TypeOf(x.X))
			if id, ok := x.X.(*ast.Ident); ok && in.fd.Recv != nil && len(in.fd.Recv.List) == 1 && len(in.fd.Recv.List[0].Names) == 1 && in.fd.Recv.List[0].Names[0].Name == id.Name {
				if v, ok := in.q.receiverTextShapes(in.fd, tn); ok {
					return v
				}
			}
			return in.q.nodeTextShapes(tn)
		}
		return tset{unknownShape}
	case *ast.CallExpr:
		fn := nospace(x.Fun)
		if fn == "strings.TrimSpace" && len(x.Args) == 1 {
			v := in.eval(x.Args[0], st)
			var out tset
			for _, s := range v {
				if nonSpaceEnds(s) {
					out = append(out, s)
				} else {
					out = append(out, unknownShape)
				}
			}
			return out.norm()
		}
		for _, a := range x.Args {
			in.scan(a, st)
		}
		return tset{unknownShape}
	case *ast.BinaryExpr:
		if x.Op == token.ADD && isStringType(in.info.TypeOf(x)) {
			return concatSets(in.eval(x.X, st), in.eval(x.Y, st))
		}
		in.scan(x.X, st)
		in.scan(x.Y, st)
		return tset{unknownShape}
	case *ast.SliceExpr:
		if !isStringType(in.info.TypeOf(x.X)) {
			in.scan(x.X, st)
			return tset{unknownShape}
		}
		base := in.eval(x.X, st)
		lo, lok := intLit(x.Low)
		hi, hok := 0, x.High == nil
		if x.High != nil {
			if y, k, ok := lenMinusIn(in.fd.Body, x.High); ok {
				// len(Y)-k with Y the sliced string, or a string of the same length
				if nospace(y) == nospace(x.X) {
					hi, hok = k, true
				} else if in.sameLength(x.X, y, st) {
					hi, hok = k, true
				}
			}
		}
		if !lok || !hok {
			// computed bounds: C13-n / C13-g
			if x.Low != nil {
				in.scan(x.Low, st)
			}
			if x.High != nil {
				in.scan(x.High, st)
			}
			return tset{unknownShape}
		}
		if lo == 0 && hi == 0 {
			return base
		}
		site := in.sites[x.Pos()]
		if site == nil {
			site = &qsite{pos: x.Pos(), text: nospace(x), ok: true}
			in.sites[x.Pos()] = site
			in.order = append(in.order, x.Pos())
		}
		var out tset
		for _, s := range base {
			o, ok := sliceShape(s, lo, hi)
			if !ok {
				site.ok = false
				site.why = fmt.Sprintf("a text of shape %s reaches it: nothing guarantees the %d byte(s) it removes", s, lo+hi)
			}
			out = append(out, o)
		}
		site.shapes = base.String()
		return out.norm()
	}
	in.scan(e, st)
	return tset{unknownShape}
}

// sameLength: X is strings.TrimSpace(Y) (directly or through a local defined once) and trimming is the identity on
// every shape of Y.
func (in *qinterp) sameLength(x, y ast.Expr, st *qstate) bool {
	x = stripParens(x)
	if id, ok := x.(*ast.Ident); ok {
		if d := singleDefinition(in.fd.Body, id.Name); d != nil {
			x = stripParens(d)
		}
	}
	ce, ok := x.(*ast.CallExpr)
	if !ok || nospace(ce.Fun) != "strings.TrimSpace" || len(ce.Args) != 1 || nospace(ce.Args[0]) != nospace(y) {
		return false
	}
	for _, s := range in.eval(y, st) {
		if !nonSpaceEnds(s) {
			return false
		}
	}
	return true
}

// singleDefinition: the right-hand side of the only assignment to name in body (nil if there are several or none).
func singleDefinition(body ast.Node, name string) ast.Expr {
	var rhs ast.Expr
	n := 0
	ast.Inspect(body, func(nd ast.Node) bool {
		if as, ok := nd.(*ast.AssignStmt); ok {
			for i, lh := range as.Lhs {
				if nospace(lh) == name {
					n++
					if len(as.Lhs) == len(as.Rhs) {
						rhs = as.Rhs[i]
					}
				}
			}
		}
		return true
	})
	if n != 1 {
		return nil
	}
	return rhs
}

// scan evaluates the string slices nested in a non-string expression.
func (in *qinterp) scan(e ast.Expr, st *qstate) {
	if e == nil {
		return
	}
	ast.Inspect(e, func(n ast.Node) bool {
		switch x := n.(type) {
		case *ast.FuncLit:
			return false
		case *ast.SliceExpr:
			if isStringType(in.info.TypeOf(x.X)) {
				in.eval(x, st)
				return false
			}
		case *ast.BinaryExpr:
			if x.Op == token.LAND || x.Op == token.LOR {
				in.scan(x.X, st)
				in.scan(x.Y, in.refine(x.X, x.Op == token.LAND, st))
				return false
			}
		}
		return true
	})
}

// refine returns the state in which cond has the given truth value.
func (in *qinterp) refine(cond ast.Expr, truth bool, st *qstate) *qstate {
	cond = stripParens(cond)
	if held, ok := st.conds[nospace(cond)]; ok {
		cond = stripParens(held)
	}
	switch x := cond.(type) {
	case *ast.UnaryExpr:
		if x.Op == token.NOT {
			return in.refine(x.X, !truth, st)
		}
	case *ast.BinaryExpr:
		switch x.Op {
		case token.LAND:
			if truth {
				return in.refine(x.Y, true, in.refine(x.X, true, st))
			}
			return st
		case token.LOR:
			if !truth {
				return in.refine(x.Y, false, in.refine(x.X, false, st))
			}
			return st
		case token.EQL, token.NEQ, token.LSS, token.LEQ, token.GTR, token.GEQ:
			return in.refineCompare(x, truth, st)
		}
	case *ast.CallExpr:
		fn := nospace(x.Fun)
		if (fn == "strings.HasSuffix" || fn == "strings.HasPrefix") && len(x.Args) == 2 {
			id, ok := stripParens(x.Args[0]).(*ast.Ident)
			tv, cok := in.info.Types[x.Args[1]]
			if !ok || !cok || tv.Value == nil || tv.Value.Kind() != constant.String {
				return st
			}
			return in.refineAffix(id, constant.StringVal(tv.Value), fn == "strings.HasPrefix", truth, st)
		}
	}
	return st
}

// refineAffix: the state in which the text of id has (truth) or has not the literal as its suffix / prefix.
func (in *qinterp) refineAffix(id *ast.Ident, lit string, prefix, truth bool, st *qstate) *qstate {
	obj := in.info.Uses[id]
	cur := in.eval(id, st)
	var out tset
	for _, s := range cur {
		known := s.suf
		if prefix {
			known = s.pre
		}
		decided := len(known) >= len(lit) || s.exact
		has := strings.HasSuffix(known, lit)
		if prefix {
			has = strings.HasPrefix(known, lit)
		}
		switch {
		case decided && has == truth:
			out = append(out, s)
		case decided:
			// this shape cannot take the branch
		case truth:
			n := s
			if prefix {
				n.pre = lit
			} else {
				n.suf = lit
			}
			if n.min < len(lit) {
				n.min = len(lit)
			}
			out = append(out, n)
		default:
			out = append(out, s)
		}
	}
	o := st.clone()
	if len(out) == 0 {
		o.dead = true
	}
	o.vars[obj] = out.norm()
	return o
}

func (in *qinterp) refineCompare(x *ast.BinaryExpr, truth bool, st *qstate) *qstate {
	// x[0] == 'c' / x[len(x)-1] == 'c': the text starts / ends with the byte
	if ix, ok := stripParens(x.X).(*ast.IndexExpr); ok && (x.Op == token.EQL || x.Op == token.NEQ) {
		if id, ok := stripParens(ix.X).(*ast.Ident); ok && isStringType(in.info.TypeOf(id)) {
			if tv, ok := in.info.Types[x.Y]; ok && tv.Value != nil && tv.Value.Kind() == constant.Int {
				if c, exact := constant.Int64Val(tv.Value); exact && c > 0 && c < 128 {
					t := truth
					if x.Op == token.NEQ {
						t = !t
					}
					sub := nospace(ix.Index)
					if sub == "0" {
						return in.refineAffix(id, string(rune(c)), true, t, st)
					}
					if sub == "len("+id.Name+")-1" {
						return in.refineAffix(id, string(rune(c)), false, t, st)
					}
				}
			}
		}
	}
	op := x.Op
	if !truth {
		op = map[token.Token]token.Token{token.EQL: token.NEQ, token.NEQ: token.EQL, token.LSS: token.GEQ, token.GEQ: token.LSS, token.GTR: token.LEQ, token.LEQ: token.GTR}[op]
	}
	var id *ast.Ident
	k := 0
	l, r := stripParens(x.X), stripParens(x.Y)
	if ce, ok := l.(*ast.CallExpr); ok && nospace(ce.Fun) == "len" && len(ce.Args) == 1 {
		i, ok1 := stripParens(ce.Args[0]).(*ast.Ident)
		n, ok2 := intLit(r)
		if !ok1 || !ok2 || r == nil {
			return st
		}
		id, k = i, n
	} else if i, ok := l.(*ast.Ident); ok && nospace(r) == `""` && (op == token.EQL || op == token.NEQ) {
		id, k = i, 0
	} else {
		return st
	}
	if !isStringType(in.info.TypeOf(id)) {
		return st
	}
	obj := in.info.Uses[id]
	cur := in.eval(id, st)
	// lower bound lb / upper bound ub on the length
	lb, ub := 0, -1
	switch op {
	case token.EQL:
		lb, ub = k, k
	case token.NEQ:
		if k == 0 {
			lb = 1
		}
	case token.GTR:
		lb = k + 1
	case token.GEQ:
		lb = k
	case token.LSS:
		ub = k - 1
	case token.LEQ:
		ub = k
	}
	var out tset
	for _, s := range cur {
		if ub >= 0 && s.min > ub {
			continue
		}
		if s.exact && len(s.pre) < lb {
			continue
		}
		if s.min < lb {
			s.min = lb
		}
		if ub == 0 {
			s = exactShape("")
		}
		out = append(out, s)
	}
	o := st.clone()
	if len(out) == 0 {
		o.dead = true
	}
	o.vars[obj] = out.norm()
	return o
}

func (in *qinterp) assign(lhs ast.Expr, v tset, rhs ast.Expr, st *qstate) {
	name := nospace(lhs)
	// a stored test: `flag := strings.HasSuffix(x, "i")`
	if rhs != nil {
		if t := in.info.TypeOf(rhs); t != nil {
			if b, ok := t.Underlying().(*types.Basic); ok && b.Info()&types.IsBoolean != 0 {
				st.conds[name] = rhs
			}
		}
	}
	id, ok := lhs.(*ast.Ident)
	if !ok {
		return
	}
	obj := in.info.Defs[id]
	if obj == nil {
		obj = in.info.Uses[id]
	}
	if obj == nil || !isStringType(obj.Type()) {
		return
	}
	// tests that mention the variable no longer speak about its value
	for k, c := range st.conds {
		if mentionsIdent(c, id.Name) {
			delete(st.conds, k)
		}
	}
	st.vars[obj] = v
}

func (in *qinterp) havoc(body ast.Node, st *qstate) {
	ast.Inspect(body, func(n ast.Node) bool {
		switch x := n.(type) {
		case *ast.AssignStmt:
			for _, lh := range x.Lhs {
				if id, ok := lh.(*ast.Ident); ok {
					obj := in.info.Uses[id]
					if obj == nil {
						obj = in.info.Defs[id]
					}
					if obj != nil && isStringType(obj.Type()) {
						st.vars[obj] = tset{unknownShape}
					}
				}
				delete(st.conds, nospace(lh))
			}
		case *ast.IncDecStmt:
		}
		return true
	})
}

func (in *qinterp) block(list []ast.Stmt, st *qstate) *qstate {
	for _, s := range list {
		if st.dead {
			return st
		}
		st = in.stmt(s, st)
	}
	return st
}

func qTerminates(s ast.Stmt) bool {
	switch x := s.(type) {
	case *ast.ReturnStmt:
		return true
	case *ast.BranchStmt:
		return true // leaves the straight line; the enclosing loop is havocked anyway
	case *ast.ExprStmt:
		if ce, ok := x.X.(*ast.CallExpr); ok {
			fn := nospace(ce.Fun)
			return fn == "panic" || fn == "os.Exit"
		}
	}
	return false
}

func (in *qinterp) stmt(s ast.Stmt, st *qstate) *qstate {
	switch x := s.(type) {
	case *ast.BlockStmt:
		return in.block(x.List, st)
	case *ast.AssignStmt:
		st = st.clone()
		if len(x.Lhs) == len(x.Rhs) {
			vals := make([]tset, len(x.Rhs))
			for i, rh := range x.Rhs {
				if isStringType(in.info.TypeOf(rh)) {
					vals[i] = in.eval(rh, st)
				} else {
					in.scan(rh, st)
				}
			}
			for i, lh := range x.Lhs {
				v := vals[i]
				if x.Tok != token.ASSIGN && x.Tok != token.DEFINE {
					if x.Tok == token.ADD_ASSIGN && v != nil {
						v = concatSets(in.eval(lh, st), v)
					} else {
						v = tset{unknownShape}
					}
				}
				if v == nil {
					v = tset{unknownShape}
				}
				in.assign(lh, v, x.Rhs[i], st)
			}
		} else {
			if v, ok := in.cutResult(x, st); ok {
				in.assign(x.Lhs[0], v, nil, st)
				in.assign(x.Lhs[1], tset{unknownShape}, nil, st)
				return st
			}
			for _, rh := range x.Rhs {
				in.scan(rh, st)
			}
			for _, lh := range x.Lhs {
				in.assign(lh, tset{unknownShape}, nil, st)
			}
		}
		return st
	case *ast.DeclStmt:
		st = st.clone()
		if gd, ok := x.Decl.(*ast.GenDecl); ok {
			for _, sp := range gd.Specs {
				if vs, ok := sp.(*ast.ValueSpec); ok {
					for i, nm := range vs.Names {
						if i < len(vs.Values) && len(vs.Values) == len(vs.Names) {
							if isStringType(in.info.TypeOf(vs.Values[i])) {
								in.assign(nm, in.eval(vs.Values[i], st), vs.Values[i], st)
							} else {
								in.scan(vs.Values[i], st)
								in.assign(nm, tset{unknownShape}, vs.Values[i], st)
							}
						} else if len(vs.Values) == 0 {
							in.assign(nm, tset{exactShape("")}, nil, st)
						}
					}
				}
			}
		}
		return st
	case *ast.ExprStmt:
		in.scan(x.X, st)
		if qTerminates(x) {
			o := st.clone()
			o.dead = true
			return o
		}
		return st
	case *ast.ReturnStmt:
		for _, r := range x.Results {
			in.scan(r, st)
		}
		o := st.clone()
		o.dead = true
		return o
	case *ast.BranchStmt:
		o := st.clone()
		o.dead = true
		return o
	case *ast.IfStmt:
		if x.Init != nil {
			st = in.stmt(x.Init, st)
		}
		in.scan(x.Cond, st)
		tst := in.block(x.Body.List, in.refine(x.Cond, true, st).clone())
		est := in.refine(x.Cond, false, st).clone()
		if x.Else != nil {
			est = in.stmt(x.Else, est)
		}
		return joinStates(tst, est)
	case *ast.ForStmt, *ast.RangeStmt, *ast.SwitchStmt, *ast.TypeSwitchStmt, *ast.SelectStmt:
		// not modelled: whatever the construct assigns is unknown while it runs and afterwards
		o := st.clone()
		in.havoc(x, o)
		ast.Inspect(x, func(n ast.Node) bool {
			switch y := n.(type) {
			case *ast.FuncLit:
				return false
			case *ast.BlockStmt:
				in.block(y.List, o.clone())
				return false
			case *ast.CaseClause:
				for _, e := range y.List {
					in.scan(e, o)
				}
				in.block(y.Body, o.clone())
				return false
			case ast.Expr:
				in.scan(y, o)
				return false
			}
			return true
		})
		return o
	case *ast.LabeledStmt:
		return in.stmt(x.Stmt, st)
	case *ast.IncDecStmt, *ast.EmptyStmt:
		return st
	case *ast.DeferStmt:
		in.scan(x.Call, st)
		return st
	case *ast.GoStmt:
		in.scan(x.Call, st)
		return st
	case *ast.SendStmt:
		in.scan(x.Value, st)
		return st
	}
	return st
}

// cutResult: `rest, found := strings.CutSuffix(x, "lit")` (or CutPrefix): the shapes of rest - the shape without the
// literal where the text is known to carry it, the shape as it is where it is known not to, both where it is not known.
func (in *qinterp) cutResult(x *ast.AssignStmt, st *qstate) (tset, bool) {
	if len(x.Lhs) != 2 || len(x.Rhs) != 1 {
		return nil, false
	}
	ce, ok := stripParens(x.Rhs[0]).(*ast.CallExpr)
	if !ok || len(ce.Args) != 2 {
		return nil, false
	}
	fn := nospace(ce.Fun)
	if fn != "strings.CutSuffix" && fn != "strings.CutPrefix" {
		return nil, false
	}
	tv, cok := in.info.Types[ce.Args[1]]
	if !cok || tv.Value == nil || tv.Value.Kind() != constant.String {
		return nil, false
	}
	lit := constant.StringVal(tv.Value)
	var out tset
	for _, s := range in.eval(ce.Args[0], st) {
		known, has := s.suf, strings.HasSuffix(s.suf, lit)
		lo, hi := 0, len(lit)
		if fn == "strings.CutPrefix" {
			known, has = s.pre, strings.HasPrefix(s.pre, lit)
			lo, hi = len(lit), 0
		}
		decided := len(known) >= len(lit) || s.exact
		switch {
		case decided && has:
			o, _ := sliceShape(s, lo, hi)
			out = append(out, o)
		case decided:
			out = append(out, s)
		default:
			out = append(out, s)
			m := s.min - len(lit)
			if m < 0 {
				m = 0
			}
			o := tshape{min: m}
			if fn == "strings.CutPrefix" {
				o.suf = s.suf
			} else {
				o.pre = s.pre
			}
			if len(o.pre) > o.min {
				o.pre = ""
			}
			if len(o.suf) > o.min {
				o.suf = ""
			}
			out = append(out, o)
		}
	}
	return out.norm(), true
}

// hasConstantStringSlice: the function slices a string by constant distances from its ends.
func hasConstantStringSlice(info *types.Info, fd *ast.FuncDecl) bool {
	found := false
	ast.Inspect(fd.Body, func(n ast.Node) bool {
		se, ok := n.(*ast.SliceExpr)
		if !ok || !isStringType(info.TypeOf(se.X)) {
			return true
		}
		lo, lok := intLit(se.Low)
		hok, hi := se.High == nil, 0
		if se.High != nil {
			if _, k, ok := lenMinusIn(fd.Body, se.High); ok {
				hok, hi = true, k
			}
		}
		if lok && hok && lo+hi > 0 {
			found = true
		}
		return true
	})
	return found
}

const c13qControlSrc = `package p
type stringsT struct{}
func (stringsT) HasSuffix(a, b string) bool { return false }
func (stringsT) TrimSpace(a string) string { return a }
func (stringsT) ToLower(a string) string { return a }
var strings stringsT
func fine(v string) string {
	if strings.HasSuffix(v, "i") { v = v[:len(v)-1] }
	v = v[1:len(v)-1]
	if len(v) == 0 { return "" }
	if v[0] == '^' { v = v[1:] }
	return v
}
func trimmed(v string) string { return strings.TrimSpace(v)[1:len(v)-1] }
func bad(v string) string { w := strings.ToLower(v); return w[1:len(w)-1] }
func short(v string) string { return v[2:len(v)-1] }
`

func c13DelimiterSlices(c *Ctx, g *load.G) {
	r := c.R
	r.Rule("C13-q", "every slice of a string by constant distances from its ends in the generator (x[a:len(x)-b], x[a:], x[:len(x)-b]: the removal of the delimiters of a class, a code block, the initializer, and the one-byte trims that follow) is applied to a text that is long enough on every path: the shapes of the text (known prefix and suffix, minimal length) are those of the arguments of the node constructor at its call sites - a constant, or string(c.text) in an action of pigeon.go, i.e. the shapes of the expression the action is attached to in the grammar literal - carried through assignments, strings.TrimSpace, HasSuffix/HasPrefix and length tests, early returns; otherwise pigeon dies with `slice bounds out of range` instead of a diagnostic")
	root := g.Pkg("")
	if root == nil {
		r.Unk("C13-q", "G:root-package", "", "", "root package not loaded")
		return
	}
	skip := func(fn string) bool {
		return strings.HasSuffix(fn, "_test.go") || strings.HasSuffix(fn, "generated_static_code.go") || strings.HasSuffix(fn, "generated_static_code_range_table.go")
	}
	q := &qctx{g: g, root: root, skip: skip, actions: map[string]*ast.CompositeLit{}, decls: map[types.Object]*ast.FuncDecl{}, declPkg: map[*ast.FuncDecl]*packages.Package{}}
	for _, sfx := range []string{"", "ast", "builder"} {
		if p := g.Pkg(sfx); p != nil {
			q.pkgs = append(q.pkgs, p)
			for _, fd := range load.AllFuncDecls(p) {
				if fd.Body == nil {
					continue
				}
				if o := p.TypesInfo.Defs[fd.Name]; o != nil {
					q.decls[o] = fd
					q.declPkg[fd] = p
				}
			}
		}
	}
	refs := ruleRefsOfLiteral(root)
	q.lay = &layoutCtx{root: root, exprs: map[string]ast.Expr{}, layout: map[string]bool{}}
	for n := range refs {
		q.lay.exprs[n] = ruleExprOfLiteral(root, n)
		if e := q.lay.exprs[n]; e != nil {
			for _, a := range nodesOfType(root, e, "actionExpr") {
				if run := q.lay.field(a, "run"); run != nil {
					name := nospace(run)
					if i := strings.LastIndex(name, "."); i >= 0 {
						name = name[i+1:]
					}
					q.actions[strings.TrimPrefix(name, "call")] = a
				}
			}
		}
	}
	r.Analysed["C13-q action expressions of the front-end"] = len(q.actions)

	// control: the interpreter on four small functions with a stated origin
	if !c13qControl() {
		r.Fatal("C13-q: the delimiter-slice interpreter does not behave on its control example")
	}

	n := 0
	for _, p := range q.pkgs {
		sfx := ""
		if p != root {
			sfx = p.Types.Name()
		}
		for _, fd := range load.AllFuncDecls(p) {
			if fd.Body == nil {
				continue
			}
			fn := g.Fset.Position(fd.Pos()).Filename
			if skip(fn) || strings.HasSuffix(fn, "/pigeon.go") {
				continue
			}
			if !hasConstantStringSlice(p.TypesInfo, fd) {
				continue
			}
			q.notes = nil
			in := &qinterp{q: q, fd: fd, info: p.TypesInfo, sites: map[token.Pos]*qsite{}}
			st0 := &qstate{vars: map[types.Object]tset{}, conds: map[string]ast.Expr{}}
			// string parameters hold, at entry, what the call sites hand over
			if fd.Type.Params != nil {
				pi := 0
				for _, f := range fd.Type.Params.List {
					for _, nm := range f.Names {
						if obj := p.TypesInfo.Defs[nm]; obj != nil && isStringType(obj.Type()) {
							st0.vars[obj] = q.paramShapes(fd, pi)
						}
						pi++
					}
					if len(f.Names) == 0 {
						pi++
					}
				}
			}
			in.block(fd.Body.List, st0)
			seen := map[string]int{}
			for _, pos := range in.order {
				s := in.sites[pos]
				n++
				base := fmt.Sprintf("G.%s.%s.%s:slice %s", sfx, load.RecvName(fd), fd.Name.Name, s.text)
				seen[base]++
				construct := base
				if seen[base] > 1 {
					construct = fmt.Sprintf("%s#%d", base, seen[base])
				}
				notes := ""
				if !s.ok && len(q.notes) > 0 {
					notes = " [" + strings.Join(uniq(q.notes), "; ") + "]"
				}
				r.Check(s.ok, "C13-q", construct, "", g.Where(pos), "every text that reaches it has the bytes it removes: "+s.shapes,
					s.why+notes+": the slice bounds are out of range and pigeon dies with a Go panic trace instead of a diagnostic")
			}
		}
	}
	r.Analysed["C13-q constant-distance string slices"] = n
	if n == 0 {
		// a tree that strips delimiters without positional slices (TrimPrefix / CutSuffix / …) has nothing to discharge
		r.Ok("C13-q", "G:no-constant-distance-string-slices", "", "", "no function of the generator slices a string by constant distances from its ends")
	}
}

// c13qControl runs the interpreter on the control functions with the parameter shape {"["…"]", "["…"]i"}.
func c13qControl() bool {
	fset := token.NewFileSet()
	cf, err := parser.ParseFile(fset, "control.go", c13qControlSrc, 0)
	if err != nil {
		return false
	}
	conf := types.Config{Importer: nil, Error: func(error) {}}
	info := &types.Info{Uses: map[*ast.Ident]types.Object{}, Defs: map[*ast.Ident]types.Object{}, Types: map[ast.Expr]types.TypeAndValue{}}
	if pkg, _ := conf.Check("p", fset, []*ast.File{cf}, info); pkg == nil {
		return false
	}
	files := []*ast.File{cf}
	want := map[string][]bool{"fine": {true, true, true}, "trimmed": {true}, "bad": {false}, "short": {false}}
	okAll := true
	for _, d := range files[0].Decls {
		fd, ok := d.(*ast.FuncDecl)
		if !ok || fd.Recv != nil {
			continue
		}
		in := &qinterp{q: &qctx{}, fd: fd, info: info, sites: map[token.Pos]*qsite{}}
		st := &qstate{vars: map[types.Object]tset{}, conds: map[string]ast.Expr{}}
		pobj := info.Defs[fd.Type.Params.List[0].Names[0]]
		st.vars[pobj] = tset{{pre: "[", suf: "]", min: 2}, {pre: "[", suf: "]i", min: 3}}
		in.block(fd.Body.List, st)
		w := want[fd.Name.Name]
		if len(in.order) != len(w) {
			okAll = false
			continue
		}
		for i, pos := range in.order {
			if in.sites[pos].ok != w[i] {
				okAll = false
			}
		}
	}
	return okAll
}
