package rules

import (
	"fmt"
	"go/ast"
	"sort"
	"strings"

	"golang.org/x/tools/go/packages"
)

// Layout discipline of the front-end grammar (C03-f), read off the grammar literal of pigeon.go.
//
// "Any layout of whitespace, newlines and comments" is realised in the grammar by one rule, `__`, placed between every
// two adjacent tokens of the syntactic rules (Grammar, Rule, the expression levels, …); the weaker `_` (no line end,
// no one-line comment) belongs to the end-of-statement rule alone, where the line end is significant. The rule is
// stated on the structure of the literal, not on its text:
//
//  1. `__` accepts white space, line ends and comments (it references a rule for each, under a repetition);
//  2. `_` is referenced by EOS only;
//  3. in every syntactic rule - a rule from which `__` is reachable and that is not itself a layout rule - any two
//     items that can match next to each other (adjacent items of a sequence, skipping items that may match nothing;
//     consecutive iterations of a repetition) have layout between them: the first ends with a layout reference or
//     the second starts with one (looking through groups, labels, actions and rule references).
//
// Lexical rules (literals, classes, code blocks, identifiers, the throw operator) never reach `__` and are exempt.

type layoutCtx struct {
	root   *packages.Package
	exprs  map[string]ast.Expr
	layout map[string]bool // names of layout rules
}

func (l *layoutCtx) kind(cl *ast.CompositeLit) string {
	if t := l.root.TypesInfo.TypeOf(cl); t != nil {
		return namedOf(t)
	}
	return ""
}

func (l *layoutCtx) field(cl *ast.CompositeLit, key string) ast.Expr {
	for _, el := range cl.Elts {
		if kv, ok := el.(*ast.KeyValueExpr); ok && nospace(kv.Key) == key {
			return kv.Value
		}
	}
	return nil
}

func (l *layoutCtx) list(cl *ast.CompositeLit, key string) []*ast.CompositeLit {
	var out []*ast.CompositeLit
	if v, ok := l.field(cl, key).(*ast.CompositeLit); ok {
		for _, it := range v.Elts {
			if x := unwrapLit(it); x != nil {
				out = append(out, x)
			}
		}
	}
	return out
}

// child returns the single operand of a wrapper kind (nil for other kinds).
func (l *layoutCtx) child(cl *ast.CompositeLit) *ast.CompositeLit {
	switch l.kind(cl) {
	case "labeledExpr", "actionExpr", "zeroOrOneExpr", "zeroOrMoreExpr", "oneOrMoreExpr", "andExpr", "notExpr", "recoveryExpr":
		if e := l.field(cl, "expr"); e != nil {
			return unwrapLit(e)
		}
	}
	return nil
}

// consumesNothing: predicates and code nodes.
func (l *layoutCtx) consumesNothing(cl *ast.CompositeLit, seen map[string]bool) bool {
	switch l.kind(cl) {
	case "andExpr", "notExpr", "andCodeExpr", "notCodeExpr", "stateCodeExpr":
		return true
	case "labeledExpr", "actionExpr":
		if ch := l.child(cl); ch != nil {
			return l.consumesNothing(ch, seen)
		}
	case "ruleRefExpr":
		n, _ := litField(l.root, cl, "name")
		if seen[n] {
			return false
		}
		if e := unwrapLit(l.exprs[n]); e != nil {
			seen[n] = true
			defer delete(seen, n)
			return l.consumesNothing(e, seen)
		}
	}
	return false
}

// mayBeEmpty: the item can match without consuming (optional, star, predicate); approximated structurally.
func (l *layoutCtx) mayBeEmpty(cl *ast.CompositeLit) bool {
	switch l.kind(cl) {
	case "zeroOrOneExpr", "zeroOrMoreExpr":
		return true
	case "labeledExpr", "actionExpr":
		if ch := l.child(cl); ch != nil {
			return l.mayBeEmpty(ch)
		}
	}
	return l.consumesNothing(cl, map[string]bool{})
}

// edge: does the expression start (first=true) or end with a layout reference on every alternative?
func (l *layoutCtx) edge(cl *ast.CompositeLit, first bool, seen map[string]bool) bool {
	if cl == nil {
		return false
	}
	switch l.kind(cl) {
	case "ruleRefExpr":
		n, _ := litField(l.root, cl, "name")
		if l.layout[n] {
			return true
		}
		if seen[n] {
			return false
		}
		if e := unwrapLit(l.exprs[n]); e != nil {
			seen[n] = true
			defer delete(seen, n)
			return l.edge(e, first, seen)
		}
		return false
	case "seqExpr":
		items := l.list(cl, "exprs")
		if len(items) == 0 {
			return false
		}
		if first {
			for _, it := range items {
				if l.edge(it, first, seen) {
					return true
				}
				if !l.mayBeEmpty(it) {
					return false
				}
			}
			return false
		}
		for i := len(items) - 1; i >= 0; i-- {
			if l.edge(items[i], first, seen) {
				return true
			}
			if !l.mayBeEmpty(items[i]) {
				return false
			}
		}
		return false
	case "choiceExpr":
		alts := l.list(cl, "alternatives")
		for _, a := range alts {
			if !l.edge(a, first, seen) {
				return false
			}
		}
		return len(alts) > 0
	case "andExpr", "notExpr":
		// a predicate consumes nothing: what it looks at starts where the next item starts
		if first {
			return l.edge(l.child(cl), first, seen)
		}
		return false
	}
	if ch := l.child(cl); ch != nil {
		return l.edge(ch, first, seen)
	}
	return false
}

func (l *layoutCtx) describe(cl *ast.CompositeLit) string {
	switch l.kind(cl) {
	case "ruleRefExpr":
		n, _ := litField(l.root, cl, "name")
		return n
	case "litMatcher":
		v, _ := litField(l.root, cl, "val")
		return fmt.Sprintf("%q", v)
	case "labeledExpr":
		lb, _ := litField(l.root, cl, "label")
		if ch := l.child(cl); ch != nil {
			return lb + ":" + l.describe(ch)
		}
	case "zeroOrOneExpr":
		return "(" + l.describe(l.child(cl)) + ")?"
	case "zeroOrMoreExpr":
		return "(" + l.describe(l.child(cl)) + ")*"
	case "oneOrMoreExpr":
		return "(" + l.describe(l.child(cl)) + ")+"
	case "seqExpr":
		var parts []string
		for _, it := range l.list(cl, "exprs") {
			parts = append(parts, l.describe(it))
		}
		return strings.Join(parts, " ")
	case "actionExpr":
		return l.describe(l.child(cl))
	case "notExpr":
		return "!(" + l.describe(l.child(cl)) + ")"
	case "andExpr":
		return "&(" + l.describe(l.child(cl)) + ")"
	case "choiceExpr":
		var parts []string
		for _, it := range l.list(cl, "alternatives") {
			parts = append(parts, l.describe(it))
		}
		return strings.Join(parts, " / ")
	}
	return l.kind(cl)
}

// adjacency walks the expression and reports adjacent items without layout between them.
func (l *layoutCtx) adjacency(cl *ast.CompositeLit, report func(a, b *ast.CompositeLit)) int {
	if cl == nil {
		return 0
	}
	n := 0
	switch l.kind(cl) {
	case "seqExpr":
		items := l.list(cl, "exprs")
		for i := 0; i < len(items); i++ {
			n += l.adjacency(items[i], report)
			if l.consumesNothing(items[i], map[string]bool{}) {
				continue
			}
			for j := i + 1; j < len(items); j++ {
				b := items[j]
				n++
				if !l.edge(items[i], false, map[string]bool{}) && !l.edge(b, true, map[string]bool{}) {
					report(items[i], b)
				}
				if !l.mayBeEmpty(b) {
					break
				}
			}
		}
		return n
	case "choiceExpr":
		for _, a := range l.list(cl, "alternatives") {
			n += l.adjacency(a, report)
		}
		return n
	case "zeroOrMoreExpr", "oneOrMoreExpr":
		ch := l.child(cl)
		n += l.adjacency(ch, report)
		n++
		if !l.edge(ch, false, map[string]bool{}) && !l.edge(ch, true, map[string]bool{}) {
			report(ch, ch)
		}
		return n
	}
	if ch := l.child(cl); ch != nil {
		return l.adjacency(ch, report)
	}
	return 0
}

func c03Layout(c *Ctx, root *packages.Package) {
	r := c.R
	refs := ruleRefsOfLiteral(root)
	l := &layoutCtx{root: root, exprs: map[string]ast.Expr{}, layout: map[string]bool{"__": true, "_": true}}
	for n := range refs {
		l.exprs[n] = ruleExprOfLiteral(root, n)
	}
	if _, ok := refs["__"]; !ok {
		r.Unk("C03-f", "A.pigeon.go:layout-rule", "", "pigeon.go", "rule __ not found in the grammar literal")
		return
	}
	// 1. what __ accepts
	reach := func(from string) map[string]bool {
		seen := map[string]bool{}
		var walk func(n string)
		walk = func(n string) {
			for _, x := range refs[n] {
				if !seen[x] {
					seen[x] = true
					walk(x)
				}
			}
		}
		walk(from)
		return seen
	}
	lay := reach("__")
	var missing []string
	for _, need := range []string{"Whitespace", "EOL", "MultiLineComment", "SingleLineComment"} {
		if !lay[need] {
			missing = append(missing, need)
		}
	}
	star := false
	if e := unwrapLit(l.exprs["__"]); e != nil {
		k := l.kind(e)
		star = k == "zeroOrMoreExpr"
	}
	r.Check(len(missing) == 0 && star, "C03-f", "A.pigeon.go:layout-rule-accepts-space-newline-comments", "", "pigeon.go", "__ is a repetition over white space, line ends and both comment forms", fmt.Sprintf("__ does not reach %v (or is not a `*` repetition): that kind of layout is rejected between tokens", missing))
	// 2. who references _
	var users []string
	for n, rs := range refs {
		for _, x := range rs {
			if x == "_" && n != "EOS" {
				users = append(users, n)
			}
		}
	}
	sort.Strings(users)
	r.Check(len(users) == 0, "C03-f", "A.pigeon.go:single-line-layout-only-in-EOS", "", "pigeon.go", "_ (no line end, no one-line comment) is referenced by the end-of-statement rule only", fmt.Sprintf("rule(s) %v separate tokens with _ : a line end or a // comment at that place is rejected although the documented syntax allows any layout there", uniq(users)))
	// 2a. a line break ends a rule also when it sits inside a comment: the alternative of EOS that ends a rule at a line
	// end (it references EOL) must be able to pass over a comment that spans lines, i.e. reach the unrestricted
	// multi-line comment rule; otherwise `A <- "a" /* x <newline> y */ <newline> B <- "b"` has no way to end rule A
	if eos := unwrapLit(l.exprs["EOS"]); eos != nil && l.kind(eos) == "choiceExpr" {
		nLineEnd, okLineEnd := 0, false
		for _, alt := range l.list(eos, "alternatives") {
			direct := map[string]bool{}
			for _, rr := range nodesOfType(root, alt, "ruleRefExpr") {
				if nm := l.field(rr, "name"); nm != nil {
					direct[strings.Trim(nospace(nm), `"`)] = true
				}
			}
			if !direct["EOL"] {
				continue
			}
			nLineEnd++
			all := map[string]bool{}
			for d := range direct {
				all[d] = true
				for x := range reach(d) {
					all[x] = true
				}
			}
			if all["MultiLineComment"] {
				okLineEnd = true
			}
		}
		if nLineEnd == 0 {
			r.Unk("C03-g", "A.pigeon.go:EOS:comment-spanning-lines-ends-a-rule", "", "pigeon.go", "no alternative of EOS references EOL")
		} else {
			r.Check(okLineEnd, "C03-g", "A.pigeon.go:EOS:comment-spanning-lines-ends-a-rule", "", "pigeon.go", "a line-end alternative of EOS reaches the multi-line comment rule",
				"the alternative of EOS that ends a rule at a line end passes only over comments without a line break (rule _): a rule followed by a /* … */ comment that spans lines is rejected (`A <- \"a\" /* x <newline> y */ <newline> B <- \"b\"`: no match found at B), although comments are documented as layout")
		}
	}
	// 2b. identifier classes: the reserved-word check (rule Identifier) is for names that become Go parameters, i.e.
	// the labels of labelled expressions; failure labels are plain identifier names, and the throw operator and the
	// label list of the recovery operator must lex them by the same rule (a label one of them accepts and the other
	// rejects can be thrown but not caught, or listed but not thrown)
	idRules := func(rule string) []string {
		got := map[string]bool{}
		for _, x := range refs[rule] {
			if x == "Identifier" || x == "IdentifierName" {
				got[x] = true
			}
		}
		return keysOf(got)
	}
	if _, hasThrow := refs["ThrowExpr"]; hasThrow {
		th, lb := strings.Join(idRules("ThrowExpr"), ","), strings.Join(idRules("Labels"), ",")
		r.Check(th == lb && th != "", "C03-f", "A.pigeon.go:failure-labels-lexed-alike", "", "pigeon.go", "ThrowExpr and Labels take their labels from {"+th+"}", fmt.Sprintf("the throw operator takes its label from {%s}, the label list of the recovery operator from {%s}: a label accepted by one is rejected by the other", th, lb))
	}
	var idUsers []string
	for n, rs := range refs {
		for _, x := range rs {
			if x == "Identifier" && n != "LabeledExpr" {
				idUsers = append(idUsers, n)
			}
		}
	}
	sort.Strings(idUsers)
	r.Check(len(idUsers) == 0, "C03-f", "A.pigeon.go:reserved-word-check-for-labels-only", "", "pigeon.go", "rule Identifier (identifier that is not a Go reserved word) is referenced by LabeledExpr only", fmt.Sprintf("rule(s) %v take their name from Identifier, which rejects Go keywords and predeclared identifiers: rule names and failure labels spelled like one (error, string, len, type) are documented syntax and are now rejected", uniq(idUsers)))
	// 3. adjacency in the syntactic rules
	var names []string
	for n := range refs {
		if l.layout[n] || n == "EOS" {
			continue
		}
		if reach(n)["__"] {
			names = append(names, n)
		}
	}
	sort.Strings(names)
	pairs := 0
	var bad []string
	for _, n := range names {
		e := unwrapLit(l.exprs[n])
		pairs += l.adjacency(e, func(a, b *ast.CompositeLit) {
			bad = append(bad, fmt.Sprintf("rule %s: no layout between `%s` and `%s`", n, abbreviate(l.describe(a)), abbreviate(l.describe(b))))
		})
	}
	r.Analysed["layout_syntactic_rules"] = names
	if len(names) < 8 {
		r.Unk("C03-f", "A.pigeon.go:layout-between-adjacent-tokens", "", "pigeon.go", fmt.Sprintf("only %d syntactic rules found", len(names)))
		return
	}
	r.Check(len(bad) == 0, "C03-f", "A.pigeon.go:layout-between-adjacent-tokens", "", "pigeon.go", fmt.Sprintf("%d syntactic rules, %d adjacent pairs, each separated by a layout reference", len(names), pairs), strings.Join(uniq(bad), "; "))
}
