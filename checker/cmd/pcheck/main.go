// pcheck decides the properties of /verif/properties.jsonl for mna/pigeon by static
// analysis of /repo's current source (see /verif/DESIGN.md).
package main

import (
	"fmt"
	"os"
	"runtime/debug"
	"sort"

	"pigeonverif/internal/ob"
	"pigeonverif/internal/rules"
)

var checks = map[string]func(*rules.Ctx){
	"C01": rules.C01,
	"C02": rules.C02,
	"C03": rules.C03,
	"C04": rules.C04,
	"C05": rules.C05,
	"C06": rules.C06,
	"C07": rules.C07,
	"C08": rules.C08,
	"C09": rules.C09,
	"C10": rules.C10,
	"C11": rules.C11,
	"C12": rules.C12,
	"C13": rules.C13,
	"C14": rules.C14,
	"C15": rules.C15,
	"C16": rules.C16,
	"C17": rules.C17,
	"C18": rules.C18,
	"C19": rules.C19,
	"C20": rules.C20,
}

func main() {
	if len(os.Args) < 3 {
		fmt.Println("usage: pcheck <property> <quick|thorough>")
		os.Exit(2)
	}
	id, tier := os.Args[1], os.Args[2]
	if id == "ALL" {
		// decide every property in one process (shared loading); exit 1 if any of them reports a violation
		ids := make([]string, 0, len(checks))
		for k := range checks {
			ids = append(ids, k)
		}
		sort.Strings(ids)
		var prev *rules.Ctx
		rc := 0
		for _, k := range ids {
			r := ob.New(k, tier)
			c := rules.NewCtx(tier, r)
			c.Share(prev)
			func() {
				defer func() {
					if e := recover(); e != nil {
						r.Fatal("analyser panic: %v\n%s", e, debug.Stack())
					}
				}()
				checks[k](c)
			}()
			if r.Finish() != 0 {
				rc = 1
			}
			prev = c
		}
		os.Exit(rc)
	}
	f, ok := checks[id]
	if !ok {
		fmt.Printf("unknown property %s\n", id)
		os.Exit(2)
	}
	r := ob.New(id, tier)
	c := rules.NewCtx(tier, r)
	func() {
		defer func() {
			if e := recover(); e != nil {
				r.Fatal("analyser panic: %v\n%s", e, debug.Stack())
			}
		}()
		f(c)
	}()
	os.Exit(r.Finish())
}
