#!/bin/bash
# usage: run.sh <property id> <quick|thorough>
# Decides one property by static analysis of /repo's current working tree.
cd "$(dirname "$0")"
. ./env.sh
if [ ! -x bin/pcheck ] || [ -n "$(find checker -name '*.go' -newer bin/pcheck 2>/dev/null | head -1)" ]; then
  mkdir -p bin evidence
  (cd checker && go build -o ../bin/pcheck ./cmd/pcheck) || { echo "VIOLATION property=$1 replay=/verif/evidence/$1.violations.json"; echo "checker does not build"; exit 1; }
fi
export VERIF_TIER="$2"
rm -f "evidence/$1.selftest.json"
if [ "$2" = "thorough" ]; then
  # thorough: the rules of this property must still fire on the checker's own mutants (applied to scratch copies of
  # /repo under /tmp, removed afterwards) and stay silent on the behaviour-preserving edits; pcheck embeds the result
  python3 selftest/run.py --prop "$1" --json "evidence/$1.selftest.json" > "evidence/$1.selftest.log" 2>&1
fi
exec ./bin/pcheck "$1" "$2"
