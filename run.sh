#!/bin/bash
# usage: run.sh <property id> <quick|thorough>
# Decides one property by static analysis of /repo's current working tree.
cd "$(dirname "$0")"
. ./env.sh
if [ ! -x bin/pcheck ] || [ -n "$(find checker -name '*.go' -newer bin/pcheck 2>/dev/null | head -1)" ]; then
  mkdir -p bin evidence
  (cd checker && go build -o ../bin/pcheck ./cmd/pcheck) || { echo "VIOLATION property=$1 replay=/verif/evidence/$1.violations.json"; echo "checker does not build"; exit 1; }
fi
export VERIF_TIER="$2"
exec ./bin/pcheck "$1" "$2"
