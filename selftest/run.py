#!/usr/bin/env python3
"""Checker self-test (DESIGN.md §7): every mutant in mutants.json is applied to a scratch copy of /repo
(under /tmp, removed afterwards); the named property check must report a violation whose key contains the
expected fragment. Entries with "silent": true are behaviour-preserving edits on which the check must stay quiet.
Usage: selftest/run.py [id-substring ...]"""
import json, os, shutil, subprocess, sys, tempfile
HERE = os.path.dirname(os.path.abspath(__file__))
VERIF = os.path.dirname(HERE)
sys.path.insert(0, os.path.join(VERIF, "tools"))
import mutate

def tree_hash(repo):
    """sha256 over the sources of the repository (paths and contents): identifies the tree the self-test was written for"""
    import hashlib
    h = hashlib.sha256()
    for root, dirs, files in os.walk(repo):
        dirs[:] = sorted(d for d in dirs if d not in (".git", "bin"))
        for f in sorted(files):
            if f.endswith((".go", ".peg")) or f == "Makefile":
                p = os.path.join(root, f)
                h.update(os.path.relpath(p, repo).encode() + b"\0")
                h.update(open(p, "rb").read())
    return h.hexdigest()


def main():
    muts = json.load(open(os.path.join(HERE, "mutants.json")))
    sel = sys.argv[1:]
    ref_file = os.path.join(HERE, "reference_tree.sha256")
    if "--write-reference" in sel:
        open(ref_file, "w").write(tree_hash("/repo") + "\n")
        print("reference tree recorded")
        return 0
    # The mutants, seeded changes and refactoring sets are edits of the tree the checker was developed against. On any
    # other working tree they may not apply, or apply to code that means something else: the replay is then skipped
    # and says so (the property checks themselves always run on the current tree).
    if os.path.exists(ref_file) and open(ref_file).read().strip() != tree_hash("/repo"):
        print("working tree of /repo differs from the reference tree of the self-test: replay skipped (informational)")
        if "--json" in sel:
            json.dump({"mutants": 0, "failures": 0, "results": [], "note": "replay skipped: /repo differs from the reference tree the mutants were written for"}, open(sel[sel.index("--json") + 1], "w"), indent=1)
        return 0
    only_prop, json_out = None, None
    if "--prop" in sel:
        i = sel.index("--prop"); only_prop = sel[i + 1]; del sel[i:i + 2]
    if "--json" in sel:
        i = sel.index("--json"); json_out = sel[i + 1]; del sel[i:i + 2]
    if sel:
        muts = [m for m in muts if any(s in m["id"] for s in sel)]
    if only_prop:
        muts = [dict(m, props=[only_prop]) for m in muts if only_prop in m["props"]]
    results = []
    env = dict(os.environ)
    fails = 0
    # seeded changes written by independent sub-agents (stored with their patch): each must be reported by the
    # checks listed in its meta.json
    seeds = []
    sdir = os.path.join(VERIF, "seeded")
    if os.path.isdir(sdir) and not sel:
        import re
        for d in sorted(os.listdir(sdir)):
            mp = os.path.join(sdir, d, "meta.json")
            if not os.path.exists(mp):
                continue
            meta = json.load(open(mp))
            # the checks that report the seed are listed after "checks:" (the text before it is prose that may name rules
            # of other properties: "the report of C13-f on arrival was …"); tools/fastreplay.sh reads the same part
            cnb = meta.get("caught_now_by", "")
            if "checks:" in cnb:
                cnb = cnb.split("checks:")[-1]
            props = sorted(set(re.findall(r"C\d\d", cnb)))
            if only_prop:
                props = [p for p in props if p == only_prop]
            if props:
                seeds.append((d, props))
    for d, props in seeds:
        tmp = tempfile.mkdtemp(prefix="pv_seed_")
        try:
            repo = os.path.join(tmp, "repo")
            shutil.copytree("/repo", repo, ignore=shutil.ignore_patterns(".git", "bin"))
            pr = subprocess.run(["patch", "-p1", "-s", "-i", os.path.join(sdir, d, "patch.diff")], cwd=repo, capture_output=True, text=True)
            vd = os.path.join(tmp, "verif")
            os.makedirs(os.path.join(vd, "evidence"))
            shutil.copy(os.path.join(VERIF, "known_findings.json"), vd)
            env2 = dict(env, VERIF_REPO=repo, VERIF_DIR=vd)
            for prop in props:
                if pr.returncode != 0:
                    ok, verdict, first = False, "PATCH DOES NOT APPLY", pr.stdout[:150]
                else:
                    p = subprocess.run(["bash", "-c", f". {VERIF}/env.sh; {VERIF}/bin/pcheck {prop} quick"], env=env2, capture_output=True, text=True)
                    viol = [l for l in (p.stdout + p.stderr).splitlines() if l.startswith("violated") or l.startswith("undecided") or l.startswith("machinery failure")]
                    ok = p.returncode == 1 and len(viol) > 0
                    verdict, first = ("caught" if ok else "MISSED"), (viol[0][:150] if viol else "")
                print(f"{'ok  ' if ok else 'FAIL'} seeded/{d:38s} {prop} {verdict}  {first}")
                results.append({"mutant": "seeded/" + d, "property": prop, "kind": "seeded change (independent sub-agent)", "verdict": verdict, "ok": ok, "first_report": first})
                if not ok:
                    fails += 1
        finally:
            shutil.rmtree(tmp, ignore_errors=True)
    # behaviour-preserving refactoring sets written by independent sub-agents: every check must stay silent
    rdir = os.path.join(VERIF, "refactors")
    nref = 0
    if os.path.isdir(rdir) and not sel:
        for d in sorted(os.listdir(rdir)):
            pf = os.path.join(rdir, d, "patch.diff")
            if not os.path.exists(pf):
                continue
            nref += 1
            tmp = tempfile.mkdtemp(prefix="pv_ref_")
            try:
                repo = os.path.join(tmp, "repo")
                shutil.copytree("/repo", repo, ignore=shutil.ignore_patterns(".git", "bin"))
                pr = subprocess.run(["patch", "-p1", "-s", "-i", pf], cwd=repo, capture_output=True, text=True)
                vd = os.path.join(tmp, "verif")
                os.makedirs(os.path.join(vd, "evidence"))
                shutil.copy(os.path.join(VERIF, "known_findings.json"), vd)
                env2 = dict(env, VERIF_REPO=repo, VERIF_DIR=vd)
                what = only_prop or "ALL"
                if pr.returncode != 0:
                    ok, verdict, first = False, "PATCH DOES NOT APPLY", pr.stdout[:150]
                else:
                    p = subprocess.run(["bash", "-c", f". {VERIF}/env.sh; {VERIF}/bin/pcheck {what} quick"], env=env2, capture_output=True, text=True)
                    viol = [l for l in (p.stdout + p.stderr).splitlines() if l.startswith("violated") or l.startswith("undecided") or l.startswith("machinery failure")]
                    ok = p.returncode == 0 and not viol
                    verdict, first = ("silent" if ok else "FALSE ALARM"), (viol[0][:150] if viol else "")
                print(f"{'ok  ' if ok else 'FAIL'} refactors/{d:35s} {what} {verdict}  {first}")
                results.append({"mutant": "refactors/" + d, "property": what, "kind": "behaviour-preserving refactoring set (independent sub-agent)", "verdict": verdict, "ok": ok, "first_report": first})
                if not ok:
                    fails += 1
            finally:
                shutil.rmtree(tmp, ignore_errors=True)
    for m in muts:
        tmp = tempfile.mkdtemp(prefix="pv_mut_")
        try:
            repo = os.path.join(tmp, "repo")
            shutil.copytree("/repo", repo, ignore=shutil.ignore_patterns(".git", "bin"))
            vd = os.path.join(tmp, "verif")
            os.makedirs(os.path.join(vd, "evidence"))
            shutil.copy(os.path.join(VERIF, "known_findings.json"), vd)
            for e in m["edits"]:
                mutate.apply(repo, e["file"], e["old"], e["new"], e.get("count", 1))
            env2 = dict(env, VERIF_REPO=repo, VERIF_DIR=vd)
            for prop in m["props"]:
                p = subprocess.run(["bash", "-c", f". {VERIF}/env.sh; {VERIF}/bin/pcheck {prop} quick"], env=env2, capture_output=True, text=True)
                out = p.stdout + p.stderr
                viol = [l for l in out.splitlines() if l.startswith("violated") or l.startswith("undecided") or l.startswith("machinery failure")]
                if m.get("silent"):
                    ok = p.returncode == 0
                    verdict = "silent" if ok else "FALSE ALARM"
                else:
                    exp = m.get("expect", "")
                    ok = p.returncode == 1 and any(exp in l for l in viol)
                    verdict = "caught" if ok else ("caught-other" if p.returncode == 1 else "MISSED")
                    if verdict == "caught-other":
                        ok = False
                print(f"{'ok  ' if ok else 'FAIL'} {m['id']:45s} {prop} {verdict}  {(viol[0][:150] if viol else '')}")
                results.append({"mutant": m["id"], "property": prop, "kind": "behaviour-preserving edit" if m.get("silent") else "breaking mutant", "verdict": verdict, "ok": ok, "first_report": viol[0][:200] if viol else ""})
                if not ok:
                    fails += 1
                    if os.environ.get("SELFTEST_VERBOSE"):
                        print(out[-3000:])
        finally:
            shutil.rmtree(tmp, ignore_errors=True)
    print(f"{len(muts)} mutants, {len(seeds)} seeded changes, {nref} refactoring sets, {fails} failures")
    if json_out:
        json.dump({"mutants": len(muts) + len(seeds), "failures": fails, "results": results}, open(json_out, "w"), indent=1)
    return 1 if fails else 0

if __name__ == "__main__":
    sys.exit(main())
