#!/usr/bin/env python3
"""Checker self-test (DESIGN.md §7): every mutant in mutants.json is applied to a scratch copy of /repo
(under /tmp, removed afterwards); the named property check must report a violation whose key contains the
expected fragment. Entries with "silent": true are behaviour-preserving edits on which the check must stay quiet.
Usage: selftest/run.py [id-substring ...]"""
import json, os, shutil, subprocess, sys, tempfile
HERE = os.path.dirname(os.path.abspath(__file__))
VERIF = os.path.dirname(HERE)
sys.path.insert(0, os.path.join(VERIF, "tools"))
import mutate

def main():
    muts = json.load(open(os.path.join(HERE, "mutants.json")))
    sel = sys.argv[1:]
    if sel:
        muts = [m for m in muts if any(s in m["id"] for s in sel)]
    env = dict(os.environ)
    fails = 0
    for m in muts:
        tmp = tempfile.mkdtemp(prefix="pv_mut_")
        try:
            repo = os.path.join(tmp, "repo")
            shutil.copytree("/repo", repo, ignore=shutil.ignore_patterns(".git", "bin"))
            vd = os.path.join(tmp, "verif")
            os.makedirs(os.path.join(vd, "evidence"))
            shutil.copy(os.path.join(VERIF, "known_findings.json"), vd)
            for e in m["edits"]:
                mutate.apply(repo, e["file"], e["old"], e["new"], e.get("count", 1))
            env2 = dict(env, VERIF_REPO=repo, VERIF_DIR=vd)
            for prop in m["props"]:
                p = subprocess.run(["bash", "-c", f". {VERIF}/env.sh; {VERIF}/bin/pcheck {prop} quick"], env=env2, capture_output=True, text=True)
                out = p.stdout + p.stderr
                viol = [l for l in out.splitlines() if l.startswith("violated") or l.startswith("undecided") or l.startswith("machinery failure")]
                if m.get("silent"):
                    ok = p.returncode == 0
                    verdict = "silent" if ok else "FALSE ALARM"
                else:
                    exp = m.get("expect", "")
                    ok = p.returncode == 1 and any(exp in l for l in viol)
                    verdict = "caught" if ok else ("caught-other" if p.returncode == 1 else "MISSED")
                    if verdict == "caught-other":
                        ok = False
                print(f"{'ok  ' if ok else 'FAIL'} {m['id']:45s} {prop} {verdict}  {(viol[0][:150] if viol else '')}")
                if not ok:
                    fails += 1
                    if os.environ.get("SELFTEST_VERBOSE"):
                        print(out[-3000:])
        finally:
            shutil.rmtree(tmp, ignore_errors=True)
    print(f"{len(muts)} mutants, {fails} failures")
    return 1 if fails else 0

if __name__ == "__main__":
    sys.exit(main())
