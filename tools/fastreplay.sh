#!/bin/bash
# usage: tools/fastreplay.sh [jobs]   (PCHECK=<binary> to use a frozen copy of the checker)
# Parallel replay of every stored seeded change (must be reported by the checks listed after "checks:" in its
# meta.json) and of every stored refactoring set (must stay silent), each on a scratch copy of /repo, all 20
# properties in one pcheck process per patch. Complements selftest/run.py (which also runs the checker's own mutants).
cd /verif; . ./env.sh
jobs=${1:-8}
export PCHECK=${PCHECK:-/verif/bin/pcheck}
one() {
  kind=$1; d=$2
  t=$(mktemp -d /tmp/fr_XXXX); cp -r /repo $t/repo; rm -rf $t/repo/.git $t/repo/bin; mkdir -p $t/evidence; cp /verif/known_findings.json $t/
  if ! ( cd $t/repo && patch -p1 -s -i /verif/$kind/$d/patch.diff ) >/dev/null 2>&1; then echo "FAIL $kind/$d: patch does not apply"; rm -rf $t; return; fi
  out=$(VERIF_REPO=$t/repo VERIF_DIR=$t $PCHECK ALL quick 2>&1)
  got=$(echo "$out" | grep '^VIOLATION' | sed 's/VIOLATION property=\(C..\).*/\1/' | sort -u | tr '\n' ' ')
  rm -rf $t
  if [ "$kind" = seeded ]; then
    want=$(python3 -c "
import json,re,sys
m=json.load(open('/verif/seeded/$d/meta.json'))
print(' '.join(sorted(set(re.findall(r'C\d\d', m.get('caught_now_by','').split('checks:')[-1] if 'checks:' in m.get('caught_now_by','') else m.get('caught_now_by',''))))))")
    miss=""
    for w in $want; do case " $got " in *" $w "*) ;; *) miss="$miss $w";; esac; done
    if [ -z "$want" ]; then echo "note seeded/$d: no expected check listed (reported by: $got)";
    elif [ -n "$miss" ]; then echo "FAIL seeded/$d: expected [$want], missing [$miss], reported by [$got]"; else echo "ok   seeded/$d [$got]"; fi
  else
    if [ -n "$got" ]; then echo "FAIL $kind/$d: false alarm in [$got]"; else echo "ok   $kind/$d silent"; fi
  fi
}
export -f one
( ls seeded | sed 's/^/seeded /'; ls refactors | sed 's/^/refactors /' ) | xargs -P $jobs -L1 bash -c 'one $0 $1'
