#!/bin/bash
# usage: tools/refcheck.sh <abs patch> [props...] -- like seedcheck, but prints the violated/undecided obligations (false-alarm triage)
p="$1"; shift
t=$(mktemp -d /tmp/pv_ref_XXXX); mkdir -p $t/verif/evidence; cp -r /repo $t/repo; rm -rf $t/repo/.git; cp /verif/known_findings.json $t/verif/
( cd $t/repo && patch -p1 -s < "$p" ) || { echo APPLY FAILED; rm -rf $t; exit 1; }
. /verif/env.sh
VERIF_REPO=$t/repo VERIF_DIR=$t/verif ${PCHECK:-/verif/bin/pcheck} ${1:-ALL} quick 2>&1 | grep -v '^KNOWN-FINDING\|^rule \|^VIOLATION\|0 violated, 0 undecided, 0 machinery' | cut -c1-${CUT:-420}
rm -rf $t
