#!/bin/bash
# nf.sh <go file> <func> [recv]: print the normal-form paths of a function (debug aid)
cd /verif/checker && . /verif/env.sh
BW="writef,writelnf,writeln,writeExpr,writeExprCode,writeRule,writeRuleCode,writeFunc,funcName,pushArgsSet,popArgsSet,addArg,BasicLatinLookup,rangeTable,writeActionExprCode,writeAndCodeExprCode,writeNotCodeExprCode,writeStateCodeExprCode,writeInit,writeGrammar,writeStaticCode,PrepareGrammar,setOptions,buildParser"
DBG_FILE="$1" DBG_FUNC="$2" DBG_RECV="$3" DBG_NORM=1 DBG_WITHOUT="${DBG_WITHOUT-$BW}" go test ./internal/rules -run TestDbgPaths -count=1 -v 2>&1 | grep -v "^ok\|^PASS\|^---\|^==="
