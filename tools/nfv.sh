#!/bin/bash
# nfv.sh <repo dir> <variant> <func> : normal form of a runtime function in one template variant (debug aid)
cd /verif/checker && . /verif/env.sh
DBG_VARIANT="$2" DBG_REPO="$1" DBG_OUT=/tmp/nfv_variant.go go test ./internal/variants -run TestDumpVariant -count=1 >/dev/null 2>&1
DBG_FILE=/tmp/nfv_variant.go DBG_FUNC="$3" DBG_NORM=1 DBG_WITHOUT="${DBG_WITHOUT-read,restore,failAt,sliceFrom,in,out,parseExprWrap,parseExpr,restoreState,cloneState,pushV,popV,addErr,addErrAt}" go test ./internal/rules -run TestDbgPaths -count=1 -v 2>&1 | grep -v "^ok\|^PASS\|^---\|^==="
