#!/bin/bash
# refsum.sh <patch> [prop]: one line per alarm (verdict key :: first 200 chars of the reason)
out=$(CUT=100000 /verif/tools/refcheck.sh "$1" ${2:-ALL} 2>&1)
echo "$out" | awk -v W=${W:-260} '
/^(violated|undecided)/ {k=$0; getline a; getline b; sub(/^ +/,"",b); print substr(k,1,110) " :: " substr(b,1,W); next}
/^machinery failure/ {print substr($0,1,W+60)}
/^STALE/ {print substr($0,1,120)}
' | sort | uniq -c | sort -k2 | head -${N:-80}
