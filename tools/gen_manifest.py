#!/usr/bin/env python3
"""Regenerates /verif/MANIFEST.json from the table below (kept next to the checker so the two stay in step)."""
import json, os
HERE = os.path.dirname(os.path.dirname(os.path.abspath(__file__)))
props = [json.loads(l) for l in open(os.path.join(HERE, "properties.jsonl"))]

# id -> (technique, level text, level note, design ref)
CLAIMED = {
 "C04": ("template-variant instantiation + builder-derived skeleton type-check (go/types), AST/constant rules",
         "Sound static decision of the stated structural clauses: all 32 template variants type-check against everything builder.go can emit; method-name injectivity; definition/reference wiring; Unicode class tables resolve. These are necessary conditions of 'every accepted grammar yields Go that compiles and initialises' that hold for every grammar because they are facts about the compiler and the runtime template, not about one grammar.",
         "Not decided: user code blocks, goimports. Decided since round 19: one parameter per label name in a scope (C04-o; finding F30 repaired). Trusted: text/template, go/parser, go/types, go vet.",
         "DESIGN.md §3 C04"),
}
CLAIMED["C01"] = ("typestate abstract interpretation over go/cfg of all parse<Kind> methods in the 16 semantic template variants vs. a per-kind specification table; dispatch exhaustiveness",
 "Sound static decision of the per-kind induction step of PEG semantics: failure consumes nothing, ordered choice commits to the first match in slice order, greedy repetition, value provenance per kind, dispatch/lowering agreement, no terminal advances at end of input, entrypoint lookup. With structural induction over expression trees this is the argument for every grammar and input except the rune arithmetic inside class matching.",
 "Not decided: that a class denotes the set its text denotes (rune arithmetic), the front-end's decoding of class text, user code mutating parser internals. Induction hypothesis on callees is itself an obligation of every evaluator. Trusted: go/cfg, go/types.",
 "DESIGN.md §3 C01, Appendix A")
CLAIMED["C05"] = ("typestate abstract interpretation of state-store versions and linear clone tokens; ownership scan for globalStore; symbol absence in store-less variants",
 "Sound static decision of the inductive roll-back invariant: failure and predicates leave the store at its entry version, code blocks are bracketed, success paths never reinstate an older snapshot, clone tokens are linear, globalStore is never touched by the runtime, the left-recursion leader discards its final attempt. Holds for every grammar and input by induction over expression trees.",
 "Not decided: user Clone() correctness; behaviour under Memoize(true). Trusted: sync.Pool contract, go/cfg, go/types.",
 "DESIGN.md §3 C05")
CLAIMED["C02"] = ("typestate abstract interpretation of context assignments and label-scope depth; type-resolved who-may-write scan; builder/runtime scope agreement",
 "Sound static decision of: action context taken from the entry savepoint on the ok path only; predicate/state-block context assigned before the call (finding F8); positions a pure function of (input, offset) by ownership of position/savepoint/input stores and the shape of read(); label scopes agree between compiler and interpreter; a code predicate's boolean alone decides.",
 "Not decided: that col counts runes for every byte string (utf8.DecodeRune semantics), label values across -optimize-grammar inlining. Listed exception RecoveryExpr scope depth confirmed by reading.",
 "DESIGN.md §3 C02")
CLAIMED["C11"] = ("error-discipline rules (no error dropped, typed entries, list returned) via abstract interpretation of code-block call sites plus AST/who-may-write rules",
 "Sound static decision of the error contract's structural clauses: every code-block error is recorded under exactly err != nil at the right position and parsing continues; only *parserError enters the list with the documented prefix; every return of parse yields the de-duplicated list; dedupe keeps first occurrences in order; the recover handler is wired as documented and defaults to on.",
 "Not decided: which errors survive a particular backtrack (behavioural).",
 "DESIGN.md §3 C11")
CLAIMED["C12"] = ("typestate abstract interpretation of terminal matchers and inversion parity; AST/ordering rules on failAt and message synthesis",
 "Sound static decision of: every terminal outcome reported exactly once with correct polarity, start position and own label; inversion scoped to !; message built from de-duplicated, sorted expected list with EOF last at maxFailPos; failAt keeps the farthest offset.",
 "Not decided: the global induction that the reported offset is the maximum over a whole backtracking run (follows from C12-a/d but is not mechanised). Memo-hit paths are decided and are known findings (F20: failure reports are not replayed on a hit); the initial failure position is a known finding (F21).",
 "DESIGN.md §3 C12")
CLAIMED["C14"] = ("typestate abstract interpretation of the handler stack (push/pop pairing, scan order, first success); builder field pairing; traversal exhaustiveness",
 "Sound static decision of: handlers in force exactly during the guarded evaluation; throw scans innermost-first, returns the first succeeding handler, fails after the scan; builder emits the right fields; generator traversals handle both kinds (F1, repaired).",
 "Not decided: dynamic nesting semantics beyond these shapes.",
 "DESIGN.md §3 C14")
CLAIMED["C06"] = ("slice non-interference for debug and statistics (guard-position + who-may-read/write rules); typestate abstract interpretation of the memo-table discipline",
 "Complete static decision that Debug and Statistics cannot influence results; sound decision of the memo discipline (key before, end after, same node, same guard, hit restores stored end) which gives at-most-once evaluation per (node, offset) outside left-recursive rules; which expression kinds may be answered from the memo table at all (C06-e: not those that bind or read the caller's label scope - violated on the pinned tree, finding F14, known); errList.add keeps every error (C06-f).",
 "Not decided: that replaying a memoised result equals re-evaluating for the remaining kinds (purity of code blocks is the property's hypothesis); expected-set bookkeeping on memo hits.",
 "DESIGN.md §3 C06")
CLAIMED["C08"] = ("typestate abstract interpretation of the seed-growing loop and of rule dispatch in the 8 LeftRecursion variants",
 "Narrow claim: nothing of the final non-extending attempt is retained (position, state store, error list), expression memo consistently off in left-recursive rules, dispatch of leader / non-leader rules, strict-growth loop condition. These are necessary conditions of the left-associative-iteration semantics.",
 "Not decided: termination and longest match over all operand shapes; equality with and without Memoize (behavioural).",
 "DESIGN.md §3 C08")
CLAIMED["C16"] = ("must-pass-through summaries (least fixpoint over abstract-interpretation exits) applied to unbounded loops and call-graph cycles",
 "Sound static decision that every unbounded repetition and every recursion of the interpreter charges the MaxExpressions budget, that the check precedes the dispatch, and that exhaustion is reported as an error (finding F11: memo hits bypass the budget in * / + loops).",
 "Not decided: identical result with a budget that is not exhausted beyond ExprCnt being read nowhere else.",
 "DESIGN.md §3 C16")
CLAIMED["C17"] = ("guard/AST rules on read() and the option, who-may-write scan for the input, end-of-input dominance in the terminal matchers",
 "Sound static decision of: invalid byte = one-byte U+FFFD in both modes, error added exactly when the flag is off, values are slices of the never-written input, no terminal advances at end of input (finding F9 for literals), flag confined to read().",
 "Not decided: de-duplication of the encoding error under backtracking.",
 "DESIGN.md §3 C17")
CLAIMED["C18"] = ("ownership/effect analysis: type-resolved store scan, escape rules for *parser, pool discipline, linear clone tokens",
 "Complete ownership argument for the runtime: grammar tree and package variables are never written during parsing, the only shared mutable object is a sync.Pool used under a clear-before-Put / overwrite-after-Discard / linear-token discipline, everything else hangs off a per-call parser that never escapes.",
 "User code blocks and a user-shared *Stats are outside the claim. Trusted: sync.Pool.",
 "DESIGN.md §3 C18")
CLAIMED["C07"] = ("per-kind obligation table for InitialNames / NullableVisit / IsNullable decided on the syntax trees of the 18 expression types; ordering/dominance rules on the detection pipeline",
 "Sound static decision that the first-set and nullability analyses over-approximate what the interpreter can enter at the start position / match emptily, per expression kind, and that detection is wired to rejection before anything is written (finding F5 repaired).",
 "Not decided: Tarjan / cycle enumeration correctness (unit-tested), left recursion created through throw/recover handlers, the run-time consequence.",
 "DESIGN.md §3 C07")
CLAIMED["C09"] = ("ownership rule (clone before in-place mutation) from type-resolved stores, side-condition extraction from the merge switch, traversal exhaustiveness, dominance of rule removal by the protection test",
 "Sound static decision of necessary conditions of language preservation: no shared mutable structure between inlined copies, class merging only for non-inverted classes with equal flags, all kinds traversed, entrypoints protected (findings F1, F3, F4 repaired).",
 "Not decided: semantic equivalence of each rewrite beyond its side conditions. The label scope of inlined rules is decided (C09-k; finding F31, known).",
 "DESIGN.md §3 C09")
CLAIMED["C13"] = ("enumeration of crash constructs discharged by reasons with machine-checked side conditions; exit-code discipline on main's syntax tree; string-shape abstract interpretation of delimiter-stripping slices against the texts the front-end grammar literal can hand over; re-evaluation pattern on the grammar literal",
 "Sound static decision of panic-freedom of the generator for the enumerated construct classes and of the exit-code contract (findings F1, F2 repaired).",
 "Not decided: termination beyond the structural causes C13-d/k/l/m/r, subscripts outside the decided forms (constants, counters, subtracted positions, delimiter-stripping slices C13-q); the bootstrap binaries. nilaway/staticcheck are cross-reference only (thorough).",
 "DESIGN.md §3 C13")
CLAIMED["C19"] = ("iteration-order insensitivity: effect classification of every map range, tabled instances with checked effect signatures, absence of other nondeterminism sources",
 "Complete (modulo the reasoned table) static decision that map iteration order cannot reach the output of the generator or of the runtime (finding F6 repaired).",
 "Not decided: determinism of golang.org/x/tools/imports.",
 "DESIGN.md §3 C19")
CLAIMED["C03"] = ("structural rules on the syntax tree of the generated front-end pigeon.go and on ast.CharClassMatcher.parse",
 "Narrow claim: structural necessary conditions of 'the front-end builds the denoted AST' — node constructors positioned by the start of the match, the rule-reference chain realises the documented binding strength, operator/escape tables agree between grammar and decoder, and the layout discipline of the grammar literal (adjacent tokens of every syntactic rule separated by the layout rule, which accepts white space, line ends and comments).",
 "Not decided (behavioural, no printer in the repository): acceptance of every text as a whole (terminators, nested code blocks), decoded escape values, print/re-parse round trip.",
 "DESIGN.md §3 C03")
CLAIMED["C10"] = ("partial evaluation of the standard template variant + syntactic (token) equality with the optimized variant for all 8 parameter settings; who-may-read rule for the builder flag",
 "Complete static argument: the optimized runtime is, declaration by declaration, the standard runtime specialised to the default runtime options with provably non-interfering slices removed; the flag influences nothing else. Holds for every grammar and input modulo the soundness of the folding rules.",
 "Relies on C05, C06-a/c/w (their own checks). Trusted: the five folding rules, go/parser, go/printer.",
 "DESIGN.md §3 C10")
CLAIMED["C15"] = ("sibling agreement between the general class matcher and BasicLatinLookup (uniform case folding); fast-path wiring in the 8 table variants; table emission in the builder",
 "Narrow claim: structural necessary conditions of table ≡ general path - case folding handled for all three member sources (finding F7 repaired), both case twins of every member, no skipped rune, inclusive range ends, the Basic Latin filter applied to the folded member (finding F17 repaired), range end points not case-mapped one by one (finding F16, known) - plus the wiring of the fast path and of the table emission.",
 "Not decided: equality of the two procedures over all classes × 128 runes beyond the listed clauses.",
 "DESIGN.md §3 C15")
CLAIMED["C20"] = ("artifact consistency by static comparison (string tables vs template source, gofmt-normalised static tail of all 47 generated parsers vs the variant for the Makefile flags, recipe coverage, position anchors vs .peg bytes)",
 "Decides the artifact half: what regeneration would establish — no checked-in generated file is stale with respect to the template, its recipe's flags, or its grammar's node positions; plus sibling-agreement rules between the two front-ends (shared grammar rules, literal decoding, verbatim code blocks, binding strength of the hand-written parser).",
 "Not decided: AST equality of the hand-written bootstrap front-end and the generated one over all inputs; byte identity of a real regeneration (imports.Process formatting).",
 "DESIGN.md §3 C20")
NA_REASON = {}
DEFAULT_NA = "no check registered in this revision of the framework (see DESIGN.md for the planned static rules)"

checks = []
na = []
for p in props:
    pid = p["id"]
    if pid in CLAIMED:
        tech, text, note, ref = CLAIMED[pid]
        checks.append({
            "property_id": pid,
            "quick_cmd": f"./run.sh {pid} quick",
            "thorough_cmd": f"./run.sh {pid} thorough",
            "evidence_file": f"/verif/evidence/{pid}.json",
            "replay_cmd_template": "cat {path}",
            "engine": "pcheck",
            "level_claimed": {"category": "other", "text": text, "design_ref": ref},
            "level_note": note,
            "technique": "static analysis: " + tech,
        })
    else:
        na.append({"property_id": pid, "reason": NA_REASON.get(pid, DEFAULT_NA)})

m = {
 "version": 1,
 "setup_cmd": "./setup.sh",
 "hooks": {"guard": "verif", "enable": "none needed: the checker only reads /repo's source; no hook commits exist",
           "baseline_off_cmd": "cd /repo && go build ./... && go test -vet=off -count=1 ./...",
           "source_commits": [], "add_only": True},
 "engines": [{"name": "pcheck", "path": "/verif/checker", "serves_properties": sorted(CLAIMED),
              "kind_free_text": "repository-specific static analyser (go/ast, go/types, go/cfg, go/ssa, VTA call graph) over /repo's generator packages, the 32 instantiations of the parser-runtime template, and the checked-in generated artifacts"}],
 "checks": checks,
 "not_applicable": na,
 "notes": "All checks are static: no pigeon binary, generated parser, test or solver is run by a registered command. Findings recorded in known_findings.json print KNOWN-FINDING lines and do not fail the check.",
}
json.dump(m, open(os.path.join(HERE, "MANIFEST.json"), "w"), indent=1)
print("claimed", len(checks), "not applicable", len(na))
