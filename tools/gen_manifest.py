#!/usr/bin/env python3
"""Regenerates /verif/MANIFEST.json from the table below (kept next to the checker so the two stay in step)."""
import json, os
HERE = os.path.dirname(os.path.dirname(os.path.abspath(__file__)))
props = [json.loads(l) for l in open(os.path.join(HERE, "properties.jsonl"))]

# id -> (technique, level text, level note, design ref)
CLAIMED = {
 "C04": ("template-variant instantiation + builder-derived skeleton type-check (go/types), AST/constant rules",
         "Sound static decision of the stated structural clauses: all 32 template variants type-check against everything builder.go can emit; method-name injectivity; definition/reference wiring; Unicode class tables resolve. These are necessary conditions of 'every accepted grammar yields Go that compiles and initialises' that hold for every grammar because they are facts about the compiler and the runtime template, not about one grammar.",
         "Not decided: user code blocks, goimports, label clashes after -optimize-grammar inlining. Trusted: text/template, go/parser, go/types, go vet.",
         "DESIGN.md §3 C04"),
}
CLAIMED["C01"] = ("typestate abstract interpretation over go/cfg of all parse<Kind> methods in the 16 semantic template variants vs. a per-kind specification table; dispatch exhaustiveness",
 "Sound static decision of the per-kind induction step of PEG semantics: failure consumes nothing, ordered choice commits to the first match in slice order, greedy repetition, value provenance per kind, dispatch/lowering agreement, no terminal advances at end of input, entrypoint lookup. With structural induction over expression trees this is the argument for every grammar and input except the rune arithmetic inside class matching.",
 "Not decided: that a class denotes the set its text denotes (rune arithmetic), the front-end's decoding of class text, user code mutating parser internals. Induction hypothesis on callees is itself an obligation of every evaluator. Trusted: go/cfg, go/types.",
 "DESIGN.md §3 C01, Appendix A")
CLAIMED["C05"] = ("typestate abstract interpretation of state-store versions and linear clone tokens; ownership scan for globalStore; symbol absence in store-less variants",
 "Sound static decision of the inductive roll-back invariant: failure and predicates leave the store at its entry version, code blocks are bracketed, success paths never reinstate an older snapshot, clone tokens are linear, globalStore is never touched by the runtime, the left-recursion leader discards its final attempt. Holds for every grammar and input by induction over expression trees.",
 "Not decided: user Clone() correctness; behaviour under Memoize(true). Trusted: sync.Pool contract, go/cfg, go/types.",
 "DESIGN.md §3 C05")
NA_REASON = {}
DEFAULT_NA = "no check registered in this revision of the framework (see DESIGN.md for the planned static rules)"

checks = []
na = []
for p in props:
    pid = p["id"]
    if pid in CLAIMED:
        tech, text, note, ref = CLAIMED[pid]
        checks.append({
            "property_id": pid,
            "quick_cmd": f"./run.sh {pid} quick",
            "thorough_cmd": f"./run.sh {pid} thorough",
            "evidence_file": f"/verif/evidence/{pid}.json",
            "replay_cmd_template": "cat {path}",
            "engine": "pcheck",
            "level_claimed": {"category": "other", "text": text, "design_ref": ref},
            "level_note": note,
            "technique": "static analysis: " + tech,
        })
    else:
        na.append({"property_id": pid, "reason": NA_REASON.get(pid, DEFAULT_NA)})

m = {
 "version": 1,
 "setup_cmd": "./setup.sh",
 "hooks": {"guard": "verif", "enable": "none needed: the checker only reads /repo's source; no hook commits exist",
           "baseline_off_cmd": "cd /repo && go build ./... && go test -vet=off -count=1 ./...",
           "source_commits": [], "add_only": True},
 "engines": [{"name": "pcheck", "path": "/verif/checker", "serves_properties": sorted(CLAIMED),
              "kind_free_text": "repository-specific static analyser (go/ast, go/types, go/cfg, go/ssa, VTA call graph) over /repo's generator packages, the 32 instantiations of the parser-runtime template, and the checked-in generated artifacts"}],
 "checks": checks,
 "not_applicable": na,
 "notes": "All checks are static: no pigeon binary, generated parser, test or solver is run by a registered command. Findings recorded in known_findings.json print KNOWN-FINDING lines and do not fail the check.",
}
json.dump(m, open(os.path.join(HERE, "MANIFEST.json"), "w"), indent=1)
print("claimed", len(checks), "not applicable", len(na))
