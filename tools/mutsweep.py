#!/usr/bin/env python3
"""Automatic mutation sweep used to look for blind spots of the checker (not a registered check).

For every mutant (one small syntactic change in a generator or template source line) a scratch copy of /repo is made,
the mutant is applied (template mutants are regenerated into generated_static_code.go), `go build ./...` must succeed,
then `pcheck ALL quick` decides all properties against the scratch copy. For generator mutants the repository's own
tests of the touched packages are run too, so that the report can tell "killed by the test-suite" from "survives the
tests". Output: one JSON line per mutant in the given result file.

usage: mutsweep.py <result.jsonl> [--files f1,f2] [--jobs N] [--limit N] [--offset N] [--ops regex]
"""
import json, os, re, shutil, subprocess, sys, tempfile, concurrent.futures as cf

VERIF = os.path.dirname(os.path.dirname(os.path.abspath(__file__)))
sys.path.insert(0, os.path.join(VERIF, "tools"))
import mutate

FILES = ["builder/static_code.go", "builder/builder.go", "builder/left_recursion.go", "builder/scc.go",
         "ast/ast.go", "ast/ast_optimize.go", "ast/ast_walk.go", "main.go"]
TESTPKG = {"builder/": "./builder ./test/... .", "ast/": "./ast .", "main.go": ".", "bootstrap/": "./bootstrap/... ."}

SWAPS = [("==", "!="), ("!=", "=="), ("<=", "<"), (">=", ">"), (" < ", " <= "), (" > ", " >= "), ("&&", "||"), ("||", "&&"),
         ("++", "--"), ("+ 1", "- 1"), ("- 1", "+ 1"), ("true", "false"), ("false", "true"), (" += ", " -= ")]


def mutants_of(path, text):
    out = []
    lines = text.split("\n")
    in_tpl = path.endswith("static_code.go")
    start = 0
    if in_tpl:
        for i, l in enumerate(lines):
            if l.startswith("// IMPORTANT: All code below"):
                start = i + 1
    depth_comment = False
    for i in range(start, len(lines)):
        l = lines[i]
        s = l.strip()
        if not s or s.startswith("//") or s.startswith("*") or s.startswith("/*"):
            continue
        code = l.split("//")[0] if '"' not in l else l
        if "p.debug" in l or "p.out(" in l or "p.print" in l:
            continue  # debug tracing: equivalent mutants by C06-a
        # 1. negate conditions
        m = re.match(r"^(\s*)(if|} else if) (.*) \{\s*$", l)
        if m and ":=" not in m.group(3) and ";" not in m.group(3):
            out.append((i, "negate", l, f"{m.group(1)}{m.group(2)} !({m.group(3)}) {{"))
        # 2. delete simple statements
        if re.match(r"^\s*(p|b|r|c)\.\w+(\.\w+)*\(.*\)\s*$", l) or re.match(r"^\s*[\w\.\[\]\(\)\-\+\* ]+ = [^=].*$", l) and ":=" not in l and not s.startswith("var ") and not s.endswith("{") and not s.endswith("("):
            out.append((i, "delete", l, re.match(r"^\s*", l).group(0) + "// mutant: statement removed"))
        # 3. operator swaps (first occurrence each)
        for a, b in SWAPS:
            if a in code and not s.startswith("case ") and not s.startswith("func "):
                j = l.find(a)
                # avoid touching string literals crudely
                if l[:j].count('"') % 2 == 1 or l[:j].count('`') % 2 == 1:
                    continue
                out.append((i, f"swap {a.strip()}->{b.strip()}", l, l[:j] + b + l[j + len(a):]))
        # 4. drop one operand of a conjunction / disjunction in a condition
        m2 = re.match(r"^(\s*)(if|} else if|for) (.*) \{\s*$", l)
        if m2 and '"' not in m2.group(3) and "`" not in m2.group(3):
            cond = m2.group(3)
            for opr in (" && ", " || "):
                if opr in cond and "(" not in cond.split(opr)[0][-1:] and cond.count("(") == cond.count(")"):
                    parts = cond.split(opr)
                    if all(x.count("(") == x.count(")") for x in parts) and (";" not in cond):
                        for k in range(len(parts)):
                            rest = opr.join(parts[:k] + parts[k + 1:])
                            out.append((i, f"drop operand {k} of {opr.strip()}", l, f"{m2.group(1)}{m2.group(2)} {rest} {{"))
        # 5. defer executed immediately, continue <-> break
        if s.startswith("defer ") and not s.startswith("defer func"):
            out.append((i, "defer->now", l, l.replace("defer ", "", 1)))
        if s == "continue":
            out.append((i, "continue->break", l, l.replace("continue", "break")))
        if s == "break":
            out.append((i, "break->continue", l, l.replace("break", "continue")))
        # 6. off-by-one in slice bounds / indices written without blanks
        for a, b in (("+1:", ":"), ("+1]", "]"), ("-1]", "]"), ("[1:", "[0:"), (")-1", ")")):
            if a in code and '"' not in l:
                j = l.find(a)
                out.append((i, f"offby1 {a}->{b}", l, l[:j] + b + l[j + len(a):]))
    return out


def run(cmd, cwd, env=None, timeout=300):
    try:
        p = subprocess.run(cmd, cwd=cwd, env=env, shell=True, capture_output=True, text=True, timeout=timeout)
        return p.returncode, p.stdout + p.stderr
    except subprocess.TimeoutExpired:
        return 124, "timeout"


def evaluate(job):
    path, lineno, op, old, new = job
    tmp = tempfile.mkdtemp(prefix="pv_sweep_")
    res = {"file": path, "line": lineno + 1, "op": op, "old": old.strip(), "new": new.strip()}
    try:
        repo = os.path.join(tmp, "repo")
        shutil.copytree("/repo", repo, ignore=shutil.ignore_patterns(".git", "bin"))
        p = os.path.join(repo, path)
        lines = open(p).read().split("\n")
        if lines[lineno] != old:
            res["error"] = "line moved"
            return res
        lines[lineno] = new
        open(p, "w").write("\n".join(lines))
        if path == "builder/static_code.go":
            mutate.regen(repo, path, "builder/generated_static_code.go", "staticCode")
        rc, out = run("go build ./... 2>&1 | head -3", repo)
        if rc != 0 or "error" in out or ".go:" in out:
            res["build"] = False
            return res
        res["build"] = True
        vd = os.path.join(tmp, "verif")
        os.makedirs(os.path.join(vd, "evidence"))
        shutil.copy(os.path.join(VERIF, "known_findings.json"), vd)
        env = dict(os.environ, VERIF_REPO=repo, VERIF_DIR=vd)
        rc, out = run(f". {VERIF}/env.sh; {VERIF}/bin/pcheck ALL quick", VERIF, env)
        viol = [l.split()[1] for l in out.splitlines() if l.startswith("violated") or l.startswith("undecided")]
        mach = [l for l in out.splitlines() if l.startswith("machinery failure")]
        res["caught"] = sorted(set(v.split(":")[0].split("-")[0] for v in viol)) + (["machinery"] if mach and not viol else [])
        res["keys"] = viol[:6] + [m[:160] for m in mach[:2]]
        if path != "builder/static_code.go":
            pk = next(v for k, v in TESTPKG.items() if path.startswith(k))
            rc, out = run(f"go test -vet=off -count=1 {pk} 2>&1 | grep -c '^FAIL\\|^--- FAIL\\|panic:'", repo, timeout=600)
            res["tests_fail"] = out.strip() not in ("0", "")
        return res
    except Exception as e:  # noqa
        res["error"] = str(e)
        return res
    finally:
        shutil.rmtree(tmp, ignore_errors=True)


def main():
    outp = sys.argv[1]
    args = sys.argv[2:]
    files, jobs, limit, offset, ops = FILES, 10, None, 0, None
    while args:
        a = args.pop(0)
        if a == "--files":
            files = args.pop(0).split(",")
        elif a == "--jobs":
            jobs = int(args.pop(0))
        elif a == "--limit":
            limit = int(args.pop(0))
        elif a == "--offset":
            offset = int(args.pop(0))
        elif a == "--ops":
            ops = re.compile(args.pop(0))
    work = []
    for f in files:
        text = open(os.path.join("/repo", f)).read()
        for (i, op, old, new) in mutants_of(f, text):
            if ops is None or ops.search(op):
                work.append((f, i, op, old, new))
    work = work[offset:]
    if limit:
        work = work[:limit]
    print(f"{len(work)} mutants", flush=True)
    # a private build cache that is trimmed while the sweep runs: every mutant of the generator rebuilds (and tests)
    # dozens of packages, and the shared cache would fill the disk
    cache = "/tmp/pv_sweep_gocache"
    os.makedirs(cache, exist_ok=True)
    os.environ["GOCACHE"] = cache

    def trim():
        try:
            kb = int(subprocess.run(["du", "-sk", cache], capture_output=True, text=True).stdout.split()[0])
            if kb > 20 * 1024 * 1024:
                subprocess.run("go clean -cache", shell=True, env=dict(os.environ), capture_output=True)
        except Exception:
            pass
    done = 0
    with open(outp, "a") as fh, cf.ThreadPoolExecutor(max_workers=jobs) as ex:
        for res in ex.map(evaluate, work):
            fh.write(json.dumps(res) + "\n")
            fh.flush()
            done += 1
            if done % 25 == 0:
                print(f"{done}/{len(work)}", flush=True)
                trim()
    shutil.rmtree(cache, ignore_errors=True)


if __name__ == "__main__":
    main()
