#!/bin/bash
# usage: tools/seedcheck.sh <patch.diff> [property ids...]
# Applies a seeded change to /repo (git apply), runs the quick checks (all 20 by default) with evidence written to a
# scratch directory, prints which checks raise a VIOLATION, and restores /repo (git checkout + removal of added files).
set -u
patch="$1"; shift
props="${*:-C01 C02 C03 C04 C05 C06 C07 C08 C09 C10 C11 C12 C13 C14 C15 C16 C17 C18 C19 C20}"
cd /verif
if ! git -C /repo diff --quiet; then echo "/repo has uncommitted changes"; exit 2; fi
git -C /repo apply "$patch" || { echo "patch does not apply"; exit 2; }
scratch=$(mktemp -d /tmp/seedcheck.XXXX)
mkdir -p "$scratch/evidence"; cp known_findings.json "$scratch/"
. ./env.sh
caught=""
for p in $props; do
  out=$(VERIF_DIR="$scratch" ./bin/pcheck "$p" quick 2>&1)
  if echo "$out" | grep -q "^VIOLATION"; then
    caught="$caught $p"
    echo "== $p"; echo "$out" | grep -A2 "^violated\|^undecided\|^machinery" | cut -c1-400 | head -12
  fi
done
git -C /repo checkout -- . ; git -C /repo clean -fdq
rm -rf "$scratch"
echo "CAUGHT BY:${caught:- none}"
