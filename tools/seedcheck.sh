#!/bin/bash
# usage: tools/seedcheck.sh <patch.diff> [property ids...]
# Applies a seeded change to a scratch copy of /repo (so that /repo itself is never disturbed), runs the quick checks
# (all 20 by default) against that copy with evidence written to a scratch directory, and prints which checks raise a
# VIOLATION. (Equivalent to `git -C /repo apply <patch>; run checks; git -C /repo checkout -- .`.)
set -u
patch="$1"; shift
props="${*:-C01 C02 C03 C04 C05 C06 C07 C08 C09 C10 C11 C12 C13 C14 C15 C16 C17 C18 C19 C20}"
cd /verif
scratch=$(mktemp -d /tmp/seedcheck.XXXX)
cp -r /repo "$scratch/repo"; rm -rf "$scratch/repo/.git" "$scratch/repo/bin"
( cd "$scratch/repo" && patch -p1 -s -i "$patch" ) || { echo "patch does not apply"; rm -rf "$scratch"; exit 2; }
mkdir -p "$scratch/evidence"; cp known_findings.json "$scratch/"
. ./env.sh
caught=""
for p in $props; do
  out=$(VERIF_REPO="$scratch/repo" VERIF_DIR="$scratch" ${PCHECK:-./bin/pcheck} "$p" quick 2>&1)
  if echo "$out" | grep -q "^VIOLATION"; then
    caught="$caught $p"
    echo "== $p"; echo "$out" | grep -A2 "^violated\|^undecided\|^machinery" | cut -c1-400 | head -12
  fi
done
rm -rf "$scratch"
echo "CAUGHT BY:${caught:- none}"
