#!/bin/bash
# refrepo.sh <abs patch> <dir>: scratch copy of /repo with the patch applied (for debugging normal forms); remove it yourself
rm -rf "$2"; mkdir -p "$2"; cp -r /repo "$2/repo"; rm -rf "$2/repo/.git"; ( cd "$2/repo" && patch -p1 -s < "$1" ) || echo APPLY FAILED
