#!/bin/bash
# tools/fixreplay.sh: for every "fix:" commit of /repo, apply its inverse to a scratch copy of the current tree and run
# all quick checks: the repaired defect must be reported again (a "fixed" entry of known_findings.json suppresses nothing).
# Prints one line per commit; exits 1 if a re-introduced defect is not reported. Not a registered check.
cd /verif; . ./env.sh 2>/dev/null
PCHECK=${PCHECK:-./bin/pcheck}
rc=0
for c in $(git -C /repo log --format=%h --grep='^fix:'); do
  t=$(mktemp -d /tmp/fixreplay.XXXX); cp -r /repo $t/repo; rm -rf $t/repo/.git
  git -C /repo diff $c $c^ > $t/inv.diff
  if (cd $t/repo && patch -p1 -s < $t/inv.diff >/dev/null 2>&1); then
    mkdir -p $t/evidence; cp known_findings.json $t/
    out=$(VERIF_REPO=$t/repo VERIF_DIR=$t $PCHECK ALL quick 2>&1 | grep '^VIOLATION' | sed 's/VIOLATION property=\(C..\).*/\1/' | tr '\n' ' ')
    want=$(python3 -c "
import json,sys
print(' '.join(sorted({f['property'] for f in json.load(open('known_findings.json')) if f.get('status')=='fixed' and f.get('commit')=='$c'})))")
    miss=""; for w in $want; do case " $out" in *" $w "*) ;; *) miss="$miss $w";; esac; done
    if [ -n "$miss" ] || [ -z "$out" ]; then echo "FAIL $c: recorded under [$want], reported by [$out]"; rc=1; else echo "ok   $c: recorded under [$want], reported by [$out]"; fi
  else
    echo "skip $c: the inverse patch does not apply to the current tree"
  fi
  rm -rf $t
done
exit $rc
