#!/bin/bash
# usage: tools/confirm_seed.sh <ID> <demo-dir>
# Confirms a seeded change independently in a scratch copy of /repo: it applies, builds, the test suite passes,
# the demonstration fails with it and passes without it. On success stores it under /verif/seeded/<ID>/.
set -u
id="$1"; demo="$2"
w=/tmp/confirm_$id
rm -rf "$w" "$w.pristine"
cp -r /repo "$w" && cp -r /repo "$w.pristine"
( cd "$w" && git apply "$demo/patch.diff" ) || { echo "APPLY FAILED"; rm -rf "$w" "$w.pristine"; exit 1; }
( cd "$w" && go build ./... ) || { echo "BUILD FAILED"; rm -rf "$w" "$w.pristine"; exit 1; }
tests=$( cd "$w" && go test -vet=off -count=1 ./... 2>&1 | grep -v "^ok\|no test files" | head -5 )
if [ -n "$tests" ]; then echo "TESTS FAIL: $tests"; rm -rf "$w" "$w.pristine"; exit 1; fi
( bash "$demo/run.sh" "$w" > /tmp/confirm_$id.with.log 2>&1 ); with=$?
( bash "$demo/run.sh" "$w.pristine" > /tmp/confirm_$id.without.log 2>&1 ); without=$?
echo "demo with change: exit $with; without: exit $without"
rm -rf "$w" "$w.pristine"
if [ $with -ne 0 ] && [ $without -eq 0 ]; then
  dst=/verif/seeded/$id; mkdir -p "$dst"
  cp -r "$demo"/. "$dst"/
  tail -5 /tmp/confirm_$id.with.log > "$dst/demo_with_change.log"; tail -3 /tmp/confirm_$id.without.log > "$dst/demo_without_change.log"
  echo CONFIRMED
else
  echo "NOT CONFIRMED"; tail -5 /tmp/confirm_$id.with.log; tail -5 /tmp/confirm_$id.without.log
fi
rm -f /tmp/confirm_$id.*.log
