#!/bin/bash
# usage: tools/mut1.sh <file> <line> <replacement text> [props...]  -- one-off line mutant against a scratch copy (debug aid)
f="$1"; n="$2"; new="$3"; shift 3
t=$(mktemp -d /tmp/pv_m1_XXXX); mkdir -p $t/verif/evidence; cp -r /repo $t/repo; rm -rf $t/repo/.git; cp /verif/known_findings.json $t/verif/
python3 - "$t/repo" "$f" "$n" "$new" <<'PY'
import sys,os
sys.path.insert(0,'/verif/tools'); import mutate
repo,f,n,new=sys.argv[1:5]; p=os.path.join(repo,f); L=open(p).read().split("\n"); print("OLD:",L[int(n)-1].strip()); L[int(n)-1]=new; open(p,"w").write("\n".join(L))
if f=="builder/static_code.go": mutate.regen(repo,f,"builder/generated_static_code.go","staticCode")
PY
( cd $t/repo && go build ./... ) || { echo NOBUILD; rm -rf $t; exit 1; }
. /verif/env.sh
VERIF_REPO=$t/repo VERIF_DIR=$t/verif ${PCHECK:-/verif/bin/pcheck} ${1:-ALL} quick 2>&1 | grep -v '^KNOWN-FINDING\|0 violated, 0 undecided, 0 machinery' | cut -c1-400 | head -${HEADN:-15}
rm -rf $t
