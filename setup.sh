#!/bin/bash
# Builds the static checker from files on disk only (module cache, no network).
set -e
cd "$(dirname "$0")"
. ./env.sh
mkdir -p bin evidence
(cd checker && go build -o ../bin/pcheck ./cmd/pcheck)
echo "pcheck built: $(./bin/pcheck 2>/dev/null | head -1)"
